package main

// C04 — a result depends only on the bytes of that call: POOL-RESET, POOL-UAR, GLOB-W, FRESH (+ SIZEG from C19, STALE/ESC in rules_bnd.go).

import (
	"fmt"
	"go/token"
	"go/types"
	"sort"
	"strings"

	"golang.org/x/tools/go/ssa"
)

func init() { register("C04", true, checkC04) }

func checkC04(p *Prog, r *Report) {
	r.Explain("POOL-RESET: on every path from a sync.Pool Get the first use of the object is a reset (bufio.Reader.Reset or a method storing only constants into the bookkeeping fields); pixel pools have no reset and are delegated to SIZEG (the exact-size guard) and FILL (every gray converter writes dst[row*w+col] on every iteration of a 0..w x 0..w loop nest, so no element keeps an earlier image's data). POOL-UAR: no use of a pooled object (or of the owner's field holding it) reachable after a non-deferred Put/Close. GLOB-W: every write to package-level state on a decode/hash path is enumerated; only sync.Pool traffic and key-determined cache inserts are accepted. STALE: reads of the pooled tag array are bounded by the count this call wrote. ESC: no pooled memory flows into a result. This decides the mechanisms through which history can leak, not equality of results across histories.")
	r.Trusted("sync.Pool hands an object to one goroutine at a time", "bufio.Reader.Reset discards all buffered state")
	rulePoolReset(p, r)
	rulePoolUAR(p, r, "C04")
	rulePoolOwn(p, r)
	rulePoolNew(p, r)
	ruleStreamPos(p, r)
	rulePoolNil(p, r)
	r.Floor("POOL-NIL", 6)
	r.Floor("STREAMPOS", 1)
	r.Floor("POOL-OWN", 6)
	ruleGlobW(p, r)
	ruleSizeG(p, r)
	ruleFill(p, r)
	r.Floor("FILL", 4)
	ruleStale(p, r)
	ruleEsc(p, r)
	r.Floor("POOL-RESET", 8)
	r.Floor("POOL-UAR", 8)
	r.Floor("GLOB-W", 1)
	r.Floor("SIZEG", 4)
	r.Floor("STALE", 3)
	r.Floor("ESC", 5)
}

// ---- pool discovery ---------------------------------------------------------------

type poolSite struct {
	f    *ssa.Function
	call ssa.CallInstruction
	pool *ssa.Global
}

func isSyncPool(g *ssa.Global) bool {
	n, ok := g.Type().(*types.Pointer).Elem().(*types.Named)
	return ok && n.Obj().Pkg() != nil && n.Obj().Pkg().Path() == "sync" && n.Obj().Name() == "Pool"
}

func poolSites(p *Prog, method string) []poolSite {
	var out []poolSite
	for _, f := range p.AllLibFns() {
		eachCall(f, func(site ssa.CallInstruction) {
			c := site.Common()
			if !isCallTo(c, "(*sync.Pool)."+method) || len(c.Args) == 0 {
				return
			}
			g, _ := c.Args[0].(*ssa.Global)
			out = append(out, poolSite{f, site, g})
		})
	}
	return out
}

// isResetFn: bufio.Reader.Reset, or a repo method whose body only stores constants into fields of its receiver.
func isResetFn(f *ssa.Function) bool {
	if f == nil {
		return false
	}
	if f.String() == "(*bufio.Reader).Reset" {
		return true
	}
	if !isRepoFn(f) || f.Signature.Recv() == nil || len(f.Blocks) != 1 || len(f.Params) != 1 {
		return false
	}
	stores := 0
	for _, in := range f.Blocks[0].Instrs {
		switch x := in.(type) {
		case *ssa.FieldAddr:
			if x.X != ssa.Value(f.Params[0]) {
				return false
			}
		case *ssa.Store:
			if _, ok := x.Val.(*ssa.Const); !ok {
				return false
			}
			if fa, ok := x.Addr.(*ssa.FieldAddr); !ok || fa.X != ssa.Value(f.Params[0]) {
				return false
			}
			stores++
		case *ssa.Return, *ssa.DebugRef:
		default:
			return false
		}
	}
	return stores > 0
}

func pixelPool(g *ssa.Global, p *Prog) bool {
	// element type: the New function returns *[]floatNN
	for _, ps := range poolSites(p, "Get") {
		if ps.pool != g {
			continue
		}
		if v, ok := ps.call.(ssa.Value); ok {
			for _, rf := range refs(v) {
				if ta, ok := rf.(*ssa.TypeAssert); ok {
					if pt, ok := ta.AssertedType.(*types.Pointer); ok {
						if sl, ok := pt.Elem().Underlying().(*types.Slice); ok {
							if b, ok := sl.Elem().Underlying().(*types.Basic); ok && b.Info()&types.IsFloat != 0 {
								return true
							}
						}
					}
				}
			}
		}
	}
	return false
}

func rulePoolReset(p *Prog, r *Report) {
	gets := poolSites(p, "Get")
	for _, gs := range gets {
		if gs.pool == nil {
			r.Undecided("POOL-RESET", fnName(gs.f)+" | Get on a pool that is not a package-level variable", p.posStr(instrPos(gs.call)), "pool receiver not resolved")
			continue
		}
		key := fmt.Sprintf("%s | Get %s", fnName(gs.f), globalName(gs.pool))
		at := p.posStr(instrPos(gs.call))
		if pixelPool(gs.pool, p) {
			r.OK("POOL-RESET", key, at, "pixel buffer without reset: delegated to SIZEG (exact-size guard makes the converter overwrite all elements)")
			continue
		}
		bad := firstUseIsReset(p, gs)
		if bad != "" {
			r.Bad("POOL-RESET", key, at, bad)
		} else {
			r.OK("POOL-RESET", key, at, "first use on every path is a reset function")
		}
	}
}

// firstUseIsReset walks forward from the Get; returns "" if on every path the first real use of the
// object is a reset call.
func firstUseIsReset(p *Prog, gs poolSite) string {
	f := gs.f
	getVal, ok := gs.call.(ssa.Value)
	if !ok {
		return "Get result discarded"
	}
	alias := map[ssa.Value]bool{getVal: true}
	// cells: (alloc, field) holding the object
	type cell struct {
		base  ssa.Value
		field int
	}
	cells := map[cell]bool{}
	cellOf := func(addr ssa.Value) (cell, bool) {
		if fa, ok := addr.(*ssa.FieldAddr); ok {
			if _, ok := fa.X.(*ssa.Alloc); ok {
				return cell{fa.X, fa.Field}, true
			}
		}
		if a, ok := addr.(*ssa.Alloc); ok {
			return cell{a, -1}, true
		}
		return cell{}, false
	}
	// pre-pass: propagate aliases (flow-insensitively) through wrappers/cells
	for changed := true; changed; {
		changed = false
		eachInstr(f, func(_ *ssa.BasicBlock, _ int, in ssa.Instruction) {
			add := func(v ssa.Value) {
				if !alias[v] {
					alias[v] = true
					changed = true
				}
			}
			switch x := in.(type) {
			case *ssa.TypeAssert:
				if alias[x.X] {
					add(x)
				}
			case *ssa.ChangeType:
				if alias[x.X] {
					add(x)
				}
			case *ssa.MakeInterface:
				if alias[x.X] {
					add(x)
				}
			case *ssa.Phi:
				for _, e := range x.Edges {
					if alias[e] {
						add(x)
					}
				}
			case *ssa.Extract:
				if alias[x.Tuple] {
					add(x)
				}
			case *ssa.Store:
				if alias[x.Val] {
					if c, ok := cellOf(x.Addr); ok && !cells[c] {
						cells[c] = true
						changed = true
					}
				}
			case *ssa.UnOp:
				if x.Op == token.MUL {
					if c, ok := cellOf(x.X); ok && cells[c] {
						add(x)
					}
				}
			}
		})
	}
	// path walk
	type pos struct {
		b *ssa.BasicBlock
		i int
	}
	seen := map[*ssa.BasicBlock]bool{}
	var problem string
	var walk func(b *ssa.BasicBlock, i int)
	walk = func(b *ssa.BasicBlock, i int) {
		for ; i < len(b.Instrs) && problem == ""; i++ {
			in := b.Instrs[i]
			uses := false
			var ops []*ssa.Value
			for _, op := range in.Operands(ops) {
				if *op != nil && alias[*op] {
					uses = true
				}
			}
			if !uses {
				if ret, ok := in.(*ssa.Return); ok {
					// returning a container that holds the un-reset object
					for _, rv := range ret.Results {
						if u, ok := rv.(*ssa.UnOp); ok && u.Op == token.MUL {
							for c := range cells {
								if c.base == u.X {
									problem = "the pooled object is returned inside its owner without having been reset"
								}
							}
						}
					}
				}
				continue
			}
			switch x := in.(type) {
			case *ssa.TypeAssert, *ssa.ChangeType, *ssa.MakeInterface, *ssa.Phi, *ssa.Extract, *ssa.DebugRef:
				continue
			case *ssa.Store:
				if alias[x.Val] {
					if _, ok := cellOf(x.Addr); ok {
						continue
					}
				}
				problem = "the pooled object is stored to non-local memory before reset at " + p.posStr(instrPos(in))
				return
			case *ssa.Defer:
				if isCallTo(x.Common(), "(*sync.Pool).Put") {
					continue
				}
				problem = "the pooled object is handed to a deferred call before reset at " + p.posStr(instrPos(in))
				return
			case *ssa.Call:
				c := x.Common()
				if sc := c.StaticCallee(); sc != nil && isResetFn(sc) && len(c.Args) > 0 && alias[c.Args[0]] {
					return // this path is fine
				}
				problem = fmt.Sprintf("first use of the pooled object is %s, not a reset, at %s", calleeName(c), p.posStr(instrPos(in)))
				return
			default:
				problem = fmt.Sprintf("first use of the pooled object is %T, not a reset, at %s", in, p.posStr(instrPos(in)))
				return
			}
		}
		if problem != "" {
			return
		}
		for _, s := range b.Succs {
			if !seen[s] {
				seen[s] = true
				walk(s, 0)
			}
		}
	}
	b := gs.call.Block()
	idx := 0
	for i, in := range b.Instrs {
		if in == gs.call.(ssa.Instruction) {
			idx = i + 1
		}
	}
	walk(b, idx)
	return problem
}

// ---- POOL-UAR ---------------------------------------------------------------------

type relKey struct {
	param int
	field string // "" = the parameter itself
}

// traceParam: v is (a ChangeType/phi-free alias of) parameter i → (i, true)
func traceParam(f *ssa.Function, v ssa.Value) (int, bool) {
	for i := 0; i < 10; i++ {
		switch x := v.(type) {
		case *ssa.Parameter:
			for i, p := range f.Params {
				if p == x {
					return i, true
				}
			}
			return 0, false
		case *ssa.ChangeType:
			v = x.X
		case *ssa.MakeInterface:
			v = x.X
		case *ssa.UnOp:
			// a parameter captured by a closure lives in a cell: *cell is the parameter
			if x.Op == token.MUL {
				if al, ok := x.X.(*ssa.Alloc); ok {
					return cellParam(f, al)
				}
			}
			return 0, false
		default:
			return 0, false
		}
	}
	return 0, false
}

// cellParam: the local cell holds parameter i and nothing else is ever stored into it.
func cellParam(f *ssa.Function, al *ssa.Alloc) (int, bool) {
	idx, n := -1, 0
	for _, rf := range refs(al) {
		st, ok := rf.(*ssa.Store)
		if !ok || st.Addr != ssa.Value(al) {
			continue
		}
		n++
		if prm, ok := st.Val.(*ssa.Parameter); ok {
			for i, q := range f.Params {
				if q == prm {
					idx = i
				}
			}
		}
	}
	if n == 1 && idx >= 0 {
		return idx, true
	}
	return 0, false
}

// traceFreeVarField: in a closure, v = *(&(*fv).F), &(*fv).F, *fv or fv → (free variable index, F)
func traceFreeVarField(g *ssa.Function, v ssa.Value) (int, string, bool) {
	if mi, ok := v.(*ssa.MakeInterface); ok {
		v = mi.X
	}
	fvIdx := func(v ssa.Value) (int, bool) {
		if u, ok := v.(*ssa.UnOp); ok && u.Op == token.MUL {
			v = u.X
		}
		if fv, ok := v.(*ssa.FreeVar); ok {
			for j, q := range g.FreeVars {
				if q == fv {
					return j, true
				}
			}
		}
		return 0, false
	}
	w := v
	if u, ok := w.(*ssa.UnOp); ok && u.Op == token.MUL {
		if fa, ok := u.X.(*ssa.FieldAddr); ok {
			if j, ok := fvIdx(fa.X); ok {
				return j, fieldName(fa.X.Type(), fa.Field), true
			}
		}
	}
	if fa, ok := w.(*ssa.FieldAddr); ok {
		if j, ok := fvIdx(fa.X); ok {
			return j, fieldName(fa.X.Type(), fa.Field), true
		}
	}
	if j, ok := fvIdx(w); ok {
		return j, "", true
	}
	return 0, "", false
}

// traceParamField: v = *(&param.F) or &param.F → (i, F)
func traceParamField(f *ssa.Function, v ssa.Value) (relKey, bool) {
	if mi, ok := v.(*ssa.MakeInterface); ok {
		v = mi.X
	}
	if u, ok := v.(*ssa.UnOp); ok && u.Op == token.MUL {
		v = u.X
	}
	if fa, ok := v.(*ssa.FieldAddr); ok {
		if i, ok := traceParam(f, fa.X); ok {
			return relKey{i, fieldName(fa.X.Type(), fa.Field)}, true
		}
	}
	if i, ok := traceParam(f, v); ok {
		return relKey{i, ""}, true
	}
	return relKey{}, false
}

type poolSummaries struct {
	relFV map[*ssa.Function]map[relKey]bool // closure releases free variable(.field); relKey.param is the free-variable index
	rel   map[*ssa.Function]map[relKey]bool // function releases param(.field)
	uses  map[*ssa.Function]map[relKey]bool // function touches param.field
}

func buildPoolSummaries(p *Prog) *poolSummaries {
	ps := &poolSummaries{rel: map[*ssa.Function]map[relKey]bool{}, uses: map[*ssa.Function]map[relKey]bool{}, relFV: map[*ssa.Function]map[relKey]bool{}}
	fns := p.AllLibFns()
	add := func(m map[*ssa.Function]map[relKey]bool, f *ssa.Function, k relKey) bool {
		if m[f] == nil {
			m[f] = map[relKey]bool{}
		}
		if m[f][k] {
			return false
		}
		m[f][k] = true
		return true
	}
	for changed := true; changed; {
		changed = false
		for _, f := range fns {
			eachInstr(f, func(_ *ssa.BasicBlock, _ int, in ssa.Instruction) {
				if fa, ok := in.(*ssa.FieldAddr); ok {
					if i, ok := traceParam(f, fa.X); ok {
						if add(ps.uses, f, relKey{i, fieldName(fa.X.Type(), fa.Field)}) {
							changed = true
						}
					}
				}
				site, ok := in.(ssa.CallInstruction)
				if !ok {
					return
				}
				c := site.Common()
				if isCallTo(c, "(*sync.Pool).Put") && len(c.Args) == 2 {
					if k, ok := traceParamField(f, c.Args[1]); ok {
						if add(ps.rel, f, k) {
							changed = true
						}
					} else if j, fld, ok := traceFreeVarField(f, c.Args[1]); ok {
						if add(ps.relFV, f, relKey{j, fld}) {
							changed = true
						}
					}
					return
				}
				args := callArgs(c)
				// a closure called or deferred here: what it releases of its free variables is released of the cells bound to them
				if mc, ok := c.Value.(*ssa.MakeClosure); ok {
					if g, ok := mc.Fn.(*ssa.Function); ok {
						for k := range ps.relFV[g] {
							if k.param >= len(mc.Bindings) {
								continue
							}
							if al, ok := mc.Bindings[k.param].(*ssa.Alloc); ok {
								if i, ok := cellParam(f, al); ok {
									if add(ps.rel, f, relKey{i, k.field}) {
										changed = true
									}
								}
							}
						}
					}
				}
				for _, g := range p.Callees(site) {
					if !isLibFn(g) {
						continue
					}
					for k := range ps.rel[g] {
						if k.param >= len(args) {
							continue
						}
						if j, fld, ok := traceFreeVarField(f, args[k.param]); ok && (fld == "" || k.field == "") {
							if fld == "" {
								fld = k.field
							}
							if add(ps.relFV, f, relKey{j, fld}) {
								changed = true
							}
						}
						if i, ok := traceParam(f, args[k.param]); ok {
							if add(ps.rel, f, relKey{i, k.field}) {
								changed = true
							}
						} else if k.field == "" {
							if kk, ok := traceParamField(f, args[k.param]); ok {
								if add(ps.rel, f, kk) {
									changed = true
								}
							}
						}
					}
					for k := range ps.uses[g] {
						if k.param >= len(args) {
							continue
						}
						if i, ok := traceParam(f, args[k.param]); ok {
							if add(ps.uses, f, relKey{i, k.field}) {
								changed = true
							}
						}
					}
				}
			})
		}
	}
	return ps
}

// instrsAfter returns the instructions that can execute after instruction in (CFG reachability).
func instrsAfter(in ssa.Instruction) []ssa.Instruction {
	b := in.Block()
	var out []ssa.Instruction
	idx := -1
	for i, x := range b.Instrs {
		if x == in {
			idx = i
		}
	}
	out = append(out, b.Instrs[idx+1:]...)
	reach := blocksReachableFrom(b)
	for _, bb := range b.Parent().Blocks {
		if reach[bb] {
			if bb == b {
				out = append(out, b.Instrs[:idx+1]...)
			} else {
				out = append(out, bb.Instrs...)
			}
		}
	}
	return out
}

func rulePoolUAR(p *Prog, r *Report, prop string) {
	ps := buildPoolSummaries(p)
	n := 0
	for _, f := range p.AllLibFns() {
		type relSite struct {
			in       ssa.Instruction
			base     ssa.Value
			field    string
			what     string
			deferred bool
		}
		var sites []relSite
		defer func(f *ssa.Function) {
			// released twice: a deferred release runs at every exit, so any other release of the same object in the
			// function (directly or inside a callee) hands the object to the pool a second time
			for _, d := range sites {
				if !d.deferred {
					continue
				}
				for _, nd := range sites {
					if nd.deferred || nd.field != d.field || !sameObject(f, d.base, nd.base) {
						continue
					}
					key := fmt.Sprintf("%s | %s and deferred %s", fnName(f), nd.what, d.what)
					r.Bad("POOL-UAR", key, p.posStr(instrPos(nd.in)), "the object is released here and again by the deferred release at "+p.posStr(instrPos(d.in))+": the pool then hands one object to two callers")
				}
			}
			// two deferred releases of one object: both run at exit. For a pointer-receiver method on a local variable the
			// deferred call holds the variable's ADDRESS, so re-assigning the variable between the two defers does not
			// separate them — both release whatever the variable holds at the end, the earlier value is never released
			for i, d1 := range sites {
				if !d1.deferred {
					continue
				}
				for _, d2 := range sites[i+1:] {
					if !d2.deferred || d2.in == d1.in || d1.field != d2.field || !sameObject(f, d1.base, d2.base) {
						continue
					}
					b1, b2 := d1.in.Block(), d2.in.Block()
					if !b1.Dominates(b2) && !b2.Dominates(b1) {
						continue
					}
					key := fmt.Sprintf("%s | two deferred releases: %s", fnName(f), d1.what)
					r.Bad("POOL-UAR", key, p.posStr(instrPos(d2.in)), "the release deferred here and the one deferred at "+p.posStr(instrPos(d1.in))+" act on the same object when the function returns (a deferred pointer-receiver call keeps the variable's address, not its value at that moment): it is handed to the pool twice, and two later calls share it")
				}
			}
		}(f)
		eachInstr(f, func(_ *ssa.BasicBlock, _ int, in ssa.Instruction) {
			site, ok := in.(ssa.CallInstruction)
			if !ok {
				return
			}
			c := site.Common()
			_, deferred := in.(*ssa.Defer)
			type released struct {
				base  ssa.Value
				field string
				what  string
			}
			var rels []released
			if isCallTo(c, "(*sync.Pool).Put") && len(c.Args) == 2 {
				v := c.Args[1]
				if mi, ok := v.(*ssa.MakeInterface); ok {
					v = mi.X
				}
				what := "Put"
				if g, ok := c.Args[0].(*ssa.Global); ok {
					what = "Put " + globalName(g)
				}
				rels = append(rels, released{v, "", what})
			} else {
				args := callArgs(c)
				for _, g := range p.Callees(site) {
					for k := range ps.rel[g] {
						if k.param < len(args) {
							rels = append(rels, released{args[k.param], k.field, "call " + fnName(g)})
						}
					}
				}
			}
			for _, rl := range rels {
				n++
				key := fmt.Sprintf("%s | %s", fnName(f), rl.what)
				if rl.field != "" {
					key += " (." + rl.field + ")"
				}
				at := p.posStr(instrPos(in))
				sites = append(sites, relSite{in, rl.base, rl.field, rl.what, deferred})
				if deferred {
					r.OK("POOL-UAR", key, at, "release is deferred: runs after the last use")
					continue
				}
				if bad := useAfter(p, ps, f, in, rl.base, rl.field); bad != "" {
					r.Bad("POOL-UAR", key, at, bad)
				} else {
					r.OK("POOL-UAR", key, at, "no use of the released object reachable after the release")
				}
			}
		})
	}
	_ = n
}

// sameObject: a and b denote the same object in f (the same value, loads of the same cell, or the same value
// seen through interface conversions).
func sameObject(f *ssa.Function, a, b ssa.Value) bool {
	strip := func(v ssa.Value) ssa.Value {
		for i := 0; i < 6; i++ {
			switch x := v.(type) {
			case *ssa.MakeInterface:
				v = x.X
			case *ssa.ChangeType:
				v = x.X
			case *ssa.TypeAssert:
				v = x.X
			default:
				return v
			}
		}
		return v
	}
	a, b = strip(a), strip(b)
	if a == b {
		return true
	}
	ua, ok1 := a.(*ssa.UnOp)
	ub, ok2 := b.(*ssa.UnOp)
	if ok1 && ok2 && ua.Op == token.MUL && ub.Op == token.MUL && sameAddr(ua.X, ub.X) {
		return true
	}
	return false
}

func useAfter(p *Prog, ps *poolSummaries, f *ssa.Function, rel ssa.Instruction, base ssa.Value, field string) string {
	// aliases of the base object (same object, not derived memory)
	same := map[ssa.Value]bool{base: true}
	// if base is a load from a cell, later loads from the same cell are the same object
	var baseCell ssa.Value
	if u, ok := base.(*ssa.UnOp); ok && u.Op == token.MUL {
		baseCell = u.X
	}
	for changed := true; changed; {
		changed = false
		eachInstr(f, func(_ *ssa.BasicBlock, _ int, in ssa.Instruction) {
			v, ok := in.(ssa.Value)
			if !ok || same[v] {
				return
			}
			switch x := in.(type) {
			case *ssa.ChangeType:
				if same[x.X] {
					same[v], changed = true, true
				}
			case *ssa.MakeInterface:
				if same[x.X] {
					same[v], changed = true, true
				}
			case *ssa.TypeAssert:
				if same[x.X] {
					same[v], changed = true, true
				}
			case *ssa.Phi:
				for _, e := range x.Edges {
					if same[e] {
						same[v], changed = true, true
					}
				}
			case *ssa.UnOp:
				if x.Op == token.MUL && baseCell != nil && sameAddr(x.X, baseCell) {
					same[v], changed = true, true
				}
			}
		})
	}
	// reverse: if base was produced by TypeAssert of Get etc. the operands are the same object too
	for v := range same {
		switch x := v.(type) {
		case *ssa.TypeAssert:
			same[x.X] = true
		case *ssa.MakeInterface:
			same[x.X] = true
		}
	}
	derived := map[ssa.Value]bool{}
	if field == "" {
		for v := range same {
			derived[v] = true
		}
		for changed := true; changed; {
			changed = false
			eachInstr(f, func(_ *ssa.BasicBlock, _ int, in ssa.Instruction) {
				v, ok := in.(ssa.Value)
				if !ok || derived[v] || !pointerLike(v.Type()) {
					return
				}
				var ops []*ssa.Value
				for _, op := range in.Operands(ops) {
					if *op != nil && derived[*op] {
						if _, isCall := in.(*ssa.Call); isCall {
							// pointer-typed call result to which it was passed
						}
						derived[v], changed = true, true
						return
					}
				}
			})
		}
	}
	for _, in := range instrsAfter(rel) {
		if in == rel {
			continue
		}
		if field == "" {
			var ops []*ssa.Value
			for _, op := range in.Operands(ops) {
				if *op != nil && derived[*op] {
					if _, ok := in.(*ssa.DebugRef); ok {
						continue
					}
					if d, ok := in.(*ssa.Defer); ok && isCallTo(d.Common(), "(*sync.Pool).Put") {
						continue
					}
					return fmt.Sprintf("use of the released object (or memory derived from it) after the release: %T at %s", in, p.posStr(instrPos(in)))
				}
			}
			continue
		}
		// field-sensitive: accesses to base.field, or calls of functions that touch param.field
		switch x := in.(type) {
		case *ssa.FieldAddr:
			if same[x.X] && fieldName(x.X.Type(), x.Field) == field {
				// a store that replaces the field is a re-acquire, anything else is a use
				onlyStores := true
				for _, rf := range refs(x) {
					if st, ok := rf.(*ssa.Store); !ok || st.Addr != ssa.Value(x) {
						onlyStores = false
					}
				}
				if !onlyStores {
					return fmt.Sprintf("field .%s of the closed owner is used after the release at %s", field, p.posStr(instrPos(in)))
				}
			}
		case *ssa.MakeClosure:
			// a bound method value (ir.DecodeJPEGIfd) or a closure over the owner, created after the release: whoever
			// calls it later uses the released field through it
			fn, _ := x.Fn.(*ssa.Function)
			if fn == nil {
				break
			}
			for bi, bnd := range x.Bindings {
				if !same[bnd] || bi >= len(fn.FreeVars) {
					continue
				}
				fv := ssa.Value(fn.FreeVars[bi])
				hit := ""
				eachCall(fn, func(site ssa.CallInstruction) {
					args := callArgs(site.Common())
					for _, g := range p.Callees(site) {
						for k := range ps.uses[g] {
							if k.field == field && k.param < len(args) && args[k.param] == fv {
								hit = fnName(g)
							}
						}
					}
				})
				if hit != "" {
					return fmt.Sprintf("a method value or closure over the closed owner is created after the release at %s; calling it runs %s, which uses .%s", p.posStr(instrPos(in)), hit, field)
				}
			}
		case ssa.CallInstruction:
			args := callArgs(x.Common())
			for _, g := range p.Callees(x) {
				for k := range ps.uses[g] {
					if k.field == field && k.param < len(args) && same[args[k.param]] {
						if ps.rel[g][k] && isDeferredOrSame(x, rel) {
							continue
						}
						return fmt.Sprintf("%s (which uses .%s) is called on the closed owner after the release at %s", fnName(g), field, p.posStr(instrPos(in)))
					}
				}
			}
		}
	}
	return ""
}

func isDeferredOrSame(a ssa.CallInstruction, rel ssa.Instruction) bool {
	_, d := a.(*ssa.Defer)
	return d || ssa.Instruction(a) == rel
}

func sameAddr(a, b ssa.Value) bool {
	if a == b {
		return true
	}
	fa, ok1 := a.(*ssa.FieldAddr)
	fb, ok2 := b.(*ssa.FieldAddr)
	if ok1 && ok2 && fa.Field == fb.Field {
		return sameAddr(fa.X, fb.X)
	}
	return false
}

// ---- GLOB-W -----------------------------------------------------------------------------

func ruleGlobW(p *Prog, r *Report) {
	eff := p.Effects()
	dec, err1 := p.DecEntries()
	hash, err2 := p.StateEntries()
	if err1 != nil || err2 != nil {
		r.Fatal("entry points unresolved")
		return
	}
	reach := p.Reach(append(append([]*ssa.Function{}, dec...), hash...))
	var fs []*ssa.Function
	for f := range reach {
		if isLibFn(f) && f.Blocks != nil {
			fs = append(fs, f)
		}
	}
	sortFns(fs)
	nsites := 0
	for _, f := range fs {
		for _, s := range eff.direct[f] {
			for rt := range s.Roots {
				if rt.kind != rGlobal || !isRepoPath(rt.g.Pkg.Pkg.Path()) {
					continue
				}
				cls := classifyGlobalType(rt.g.Type().(*types.Pointer).Elem())
				if cls == "sync" {
					nsites++
					continue // pool / mutex traffic
				}
				if rt.via && (cls == "logger" || cls == "error") {
					continue // the log writer / error values: trusted base
				}
				nsites++
				key := fmt.Sprintf("%s | %s | %s", fnName(f), globalName(rt.g), s.What)
				at := p.posStr(instrPos(s.In))
				if mu, ok := s.In.(*ssa.MapUpdate); ok {
					if bad := keyDetermined(f, mu); bad == "" {
						r.OK("GLOB-W", key, at, "key-determined cache insert: the stored value depends only on the key and constants")
					} else {
						r.Bad("GLOB-W", key, at, "cache insert whose value is not a function of the key alone: "+bad)
					}
					continue
				}
				r.Bad("GLOB-W", key, at, "write to package-level state on a decode/hash path: "+s.What)
			}
		}
	}
	r.Extra("globw_functions_scanned", len(fs))
	r.Extra("globw_sites_incl_pool_traffic", nsites)
	if nsites == 0 {
		r.Fatal("GLOB-W found no write sites at all, not even sync.Pool traffic: effect engine lost its anchors")
	}
	// pool traffic is recorded as one obligation per pool so the rule is never vacuous
	pools := map[string]bool{}
	for _, ps := range append(poolSites(p, "Get"), poolSites(p, "Put")...) {
		if ps.pool != nil && reach[ps.f] {
			pools[globalName(ps.pool)] = true
		}
	}
	var names []string
	for n := range pools {
		names = append(names, n)
	}
	sort.Strings(names)
	for _, n := range names {
		r.OK("GLOB-W", "pool traffic | "+n, "-", "sync.Pool Get/Put (contents governed by POOL-RESET/UAR/SIZEG)")
	}
}

// keyDetermined: the value stored by a map update may depend only on the key operand and constants.
func keyDetermined(f *ssa.Function, mu *ssa.MapUpdate) string {
	keyRoots := map[ssa.Value]bool{}
	var collect func(v ssa.Value, into map[ssa.Value]bool, depth int)
	collect = func(v ssa.Value, into map[ssa.Value]bool, depth int) {
		if depth > 40 || into[v] {
			return
		}
		into[v] = true
		switch x := v.(type) {
		case *ssa.Const, *ssa.Parameter, *ssa.Global, *ssa.FreeVar, *ssa.Function, *ssa.Builtin:
			return
		case ssa.Instruction:
			var ops []*ssa.Value
			for _, op := range x.Operands(ops) {
				if *op != nil {
					collect(*op, into, depth+1)
				}
			}
		}
	}
	collect(mu.Key, keyRoots, 0)
	valDeps := map[ssa.Value]bool{}
	collect(mu.Value, valDeps, 0)
	var bad []string
	for v := range valDeps {
		switch x := v.(type) {
		case *ssa.Parameter:
			if !keyRoots[v] {
				bad = append(bad, "parameter "+x.Name())
			}
		case *ssa.Global:
			bad = append(bad, "global "+x.Name())
		case *ssa.FreeVar:
			bad = append(bad, "free variable "+x.Name())
		case *ssa.UnOp:
			if x.Op == token.MUL {
				bad = append(bad, "memory load")
			}
		}
	}
	sort.Strings(bad)
	return strings.Join(bad, ", ")
}
