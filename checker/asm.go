package main

// E8 — a lint over the Plan 9 assembly text: directives, instructions, memory operands with base provenance,
// displacement, index range and access width. Nothing is executed or simulated numerically: registers carry
// abstract values (parameter base, constant, bounded counter, product of a counter and a constant).

import (
	"fmt"
	"os"
	"path/filepath"
	"regexp"
	"strconv"
	"strings"
)

type asmOperand struct {
	raw    string
	kind   string // "imm", "reg", "mem"
	reg    string // kind reg
	imm    int64
	sym    string // mem: symbol name (param name for FP, data symbol for SB), "" for plain register base
	base   string // mem: FP, SP, SB or a register
	disp   int64
	index  string // index register, "" if none
	scale  int64
	immStr string
}

type asmInstr struct {
	line int
	mn   string
	ops  []asmOperand
	text string
}

type asmText struct {
	name      string
	line      int
	frame     int64
	args      int64
	instrs    []asmInstr
	labels    map[string]int // label -> index of the next instruction
	labelLine map[string]int
}

type asmData struct {
	sym  string
	off  int64
	size int64
	val  string
}

type asmFile struct {
	path  string
	texts []*asmText
	data  []asmData
	globl map[string]int64
	errs  []string
}

var (
	reText  = regexp.MustCompile(`^TEXT\s+·([A-Za-z0-9_]+)\(SB\),\s*([A-Z|]+),\s*\$(-?\d+)(?:-(\d+))?`)
	reData  = regexp.MustCompile(`^DATA\s+([A-Za-z0-9_]+)<>\+(\d+)\(SB\)/(\d+),\s*\$(.+)$`)
	reGlobl = regexp.MustCompile(`^GLOBL\s+([A-Za-z0-9_]+)<>\(SB\),\s*[A-Z|]+,\s*\$(\d+)`)
	reLabel = regexp.MustCompile(`^([A-Za-z_][A-Za-z0-9_]*):$`)
	reMem   = regexp.MustCompile(`^(?:([A-Za-z_][A-Za-z0-9_]*)(<>)?)?([+-]?\d+)?\(([A-Z0-9]+)\)(?:\(([A-Z0-9]+)\*(\d)\))?$`)
	reReg   = regexp.MustCompile(`^(AX|BX|CX|DX|SI|DI|BP|SP|R\d+|X\d+|Y\d+|Z\d+|AL|BL|CL|DL)$`)
)

func parseAsm(path string) (*asmFile, error) {
	b, err := os.ReadFile(path)
	if err != nil {
		return nil, err
	}
	af := &asmFile{path: path, globl: map[string]int64{}}
	var cur *asmText
	for i, raw := range strings.Split(string(b), "\n") {
		ln := i + 1
		line := raw
		if k := strings.Index(line, "//"); k >= 0 {
			line = line[:k]
		}
		line = strings.TrimSpace(line)
		if line == "" || strings.HasPrefix(line, "#include") {
			continue
		}
		if m := reText.FindStringSubmatch(line); m != nil {
			fr, _ := strconv.ParseInt(m[3], 10, 64)
			ar := int64(0)
			if m[4] != "" {
				ar, _ = strconv.ParseInt(m[4], 10, 64)
			}
			cur = &asmText{name: m[1], line: ln, frame: fr, args: ar, labels: map[string]int{}, labelLine: map[string]int{}}
			af.texts = append(af.texts, cur)
			continue
		}
		if m := reData.FindStringSubmatch(line); m != nil {
			off, _ := strconv.ParseInt(m[2], 10, 64)
			sz, _ := strconv.ParseInt(m[3], 10, 64)
			af.data = append(af.data, asmData{m[1], off, sz, strings.TrimSpace(m[4])})
			continue
		}
		if m := reGlobl.FindStringSubmatch(line); m != nil {
			sz, _ := strconv.ParseInt(m[2], 10, 64)
			af.globl[m[1]] = sz
			continue
		}
		if strings.HasPrefix(line, "TEXT") || strings.HasPrefix(line, "DATA") || strings.HasPrefix(line, "GLOBL") {
			af.errs = append(af.errs, fmt.Sprintf("%s:%d: directive not understood: %s", filepath.Base(path), ln, line))
			continue
		}
		if m := reLabel.FindStringSubmatch(line); m != nil {
			if cur == nil {
				af.errs = append(af.errs, fmt.Sprintf("%s:%d: label outside TEXT", filepath.Base(path), ln))
				continue
			}
			cur.labels[m[1]] = len(cur.instrs)
			cur.labelLine[m[1]] = ln
			continue
		}
		if cur == nil {
			af.errs = append(af.errs, fmt.Sprintf("%s:%d: instruction outside TEXT: %s", filepath.Base(path), ln, line))
			continue
		}
		fields := strings.SplitN(line, " ", 2)
		in := asmInstr{line: ln, mn: fields[0], text: line}
		if len(fields) == 2 {
			for _, o := range splitOperands(fields[1]) {
				op, err := parseOperand(strings.TrimSpace(o))
				if err != nil {
					af.errs = append(af.errs, fmt.Sprintf("%s:%d: %v", filepath.Base(path), ln, err))
				}
				in.ops = append(in.ops, op)
			}
		}
		cur.instrs = append(cur.instrs, in)
	}
	return af, nil
}

func splitOperands(s string) []string {
	var out []string
	depth := 0
	cur := ""
	for _, c := range s {
		switch c {
		case '(':
			depth++
		case ')':
			depth--
		case ',':
			if depth == 0 {
				out = append(out, cur)
				cur = ""
				continue
			}
		}
		cur += string(c)
	}
	if strings.TrimSpace(cur) != "" {
		out = append(out, cur)
	}
	return out
}

func parseOperand(s string) (asmOperand, error) {
	op := asmOperand{raw: s}
	if strings.HasPrefix(s, "$") {
		op.kind = "imm"
		op.immStr = s[1:]
		v, err := strconv.ParseInt(strings.TrimPrefix(s[1:], "+"), 0, 64)
		if err != nil {
			if u, err2 := strconv.ParseUint(s[1:], 0, 64); err2 == nil {
				v = int64(u)
			} else {
				return op, fmt.Errorf("immediate %q not understood", s)
			}
		}
		op.imm = v
		return op, nil
	}
	if reReg.MatchString(s) {
		op.kind, op.reg = "reg", s
		return op, nil
	}
	if m := reMem.FindStringSubmatch(s); m != nil {
		op.kind = "mem"
		op.sym = m[1]
		if m[3] != "" {
			op.disp, _ = strconv.ParseInt(m[3], 10, 64)
		}
		op.base = m[4]
		op.index = m[5]
		if m[6] != "" {
			op.scale, _ = strconv.ParseInt(m[6], 10, 64)
		}
		return op, nil
	}
	// label operand of a jump
	if regexp.MustCompile(`^[A-Za-z_][A-Za-z0-9_]*$`).MatchString(s) {
		op.kind, op.reg = "label", s
		return op, nil
	}
	return op, fmt.Errorf("operand %q not understood", s)
}

// ---- access width --------------------------------------------------------------------------------------

var asmKnownMnemonics = map[string]bool{}

func init() {
	for _, m := range strings.Fields(`VADDPS VMOVUPS PSHUFD VSUBPS DIVPS VUNPCKLPS VUNPCKHPS MOVUPS VPSRLDQ VSHUFPS VPUNPCKLDQ
		VPUNPCKHDQ VPERM2F128 VPSLLDQ VPERMD VDIVPS ADDPS VBLENDPS VZEROUPPER VPMOVZXBD MOVL MOVQ VPBROADCASTD VZEROALL VPERMPS
		VPGATHERDD VPCMPEQD PEXTRD VPMULLD RET JMP JE XORQ XORL VPSRAD VPADDD VMULPS VCVTDQ2PS ADDQ VPSUBQ VPSUBD INCL IMULQ CMPQ
		CMPL VMOVAPS INCQ IMULL SUBPS MULPS VINSERTF128 VEXTRACTF128 VPERMILPS VMOVAPD VMOVUPD MOVAPS JNE JL JLE JG JGE SUBQ ADDL SUBL LEAQ`) {
		asmKnownMnemonics[m] = true
	}
}

// memWidth: bytes accessed through the memory operand of this instruction; 0 = no data access (LEAQ); -1 unknown.
func memWidth(in asmInstr, opIdx int) int64 {
	hasY, hasX := false, false
	for _, o := range in.ops {
		if o.kind == "reg" {
			if strings.HasPrefix(o.reg, "Y") {
				hasY = true
			}
			if strings.HasPrefix(o.reg, "X") {
				hasX = true
			}
		}
	}
	switch in.mn {
	case "LEAQ":
		return 0
	case "MOVL", "CMPL", "ADDL", "SUBL", "INCL", "XORL", "IMULL":
		return 4
	case "MOVQ", "CMPQ", "ADDQ", "SUBQ", "INCQ", "XORQ", "IMULQ":
		return 8
	case "VPBROADCASTD", "PEXTRD":
		return 4
	case "VPMOVZXBD":
		if hasY {
			return 8
		}
		return 4
	case "VPGATHERDD":
		return 4 // per lane
	}
	if !asmKnownMnemonics[in.mn] {
		return -1
	}
	if hasY {
		return 32
	}
	if hasX {
		return 16
	}
	return -1
}

// ---- abstract register values --------------------------------------------------------------------------

type aReg struct {
	kind   string // "pbase" (pointer to a slice parameter's data), "param" (scalar parameter), "const", "counter", "scaled", "sum", "unknown"
	name   string // parameter name
	k      int64  // const value / scale factor
	lo, hi int64  // counter: inclusive range inside the loop body
	step   int64
	bound  string // counter with a symbolic bound: parameter register name
	a, b   string // sum/scaled: source registers (symbolic, for the YCbCr kernel)
}

func (r aReg) String() string {
	switch r.kind {
	case "pbase":
		return "&" + r.name + "[0]"
	case "param":
		return r.name
	case "const":
		return fmt.Sprint(r.k)
	case "counter":
		if r.bound != "" {
			return fmt.Sprintf("counter[0,%s) step %d", r.bound, r.step)
		}
		return fmt.Sprintf("counter[%d,%d] step %d", r.lo, r.hi, r.step)
	case "scaled":
		return fmt.Sprintf("[%d,%d] step %d", r.lo, r.hi, r.step)
	}
	return r.kind
}

func dstOperand(in asmInstr) *asmOperand {
	if len(in.ops) == 0 {
		return nil
	}
	switch in.mn {
	case "CMPL", "CMPQ", "JE", "JMP", "JNE", "JL", "JLE", "JG", "JGE", "RET", "VZEROUPPER", "VZEROALL":
		return nil
	}
	return &in.ops[len(in.ops)-1]
}
