package main

// C03 — SIGN: the places where a sign, a hemisphere or a time unit is attached to a decoded value.
//
//	OFFSET  ParseOffsetTime: the seconds handed to getLocation under '-' are the negation of those under '+'
//	        (evaluated per branch, phis resolved by the branch taken), and when the digits are read by
//	        parseStrUint(buf[a:b]) the form is 3600*buf[1:3] + 60*buf[4:6].
//	GPSREF  ParseGPSRef compares the reference byte with the constant the Exif specification gives for the
//	        negative hemisphere: GPSLatitudeRef 'S', GPSLongitudeRef 'W', GPSAltitudeRef 1.
//	NEG     GPSInfo.Latitude/Longitude/Altitude return -x under the reference flag and x otherwise, x the same field.
//	UNITS   the composite time accessors add sub-seconds as milliseconds, GPS time as seconds and shift by
//	        minus the zone offset in seconds.

import (
	"fmt"
	"go/token"
	"go/types"
	"sort"
	"strings"

	"golang.org/x/tools/go/ssa"
)

// fieldPathOf: v is (a load of) a field of the function's receiver → dotted field path.
func fieldPathOf(v ssa.Value) (string, bool) {
	switch x := v.(type) {
	case *ssa.UnOp:
		if x.Op == token.MUL {
			return fieldPathOf(x.X)
		}
	case *ssa.FieldAddr:
		n := fieldName(x.X.Type(), x.Field)
		if base, ok := fieldPathOf(x.X); ok && base != "" {
			return base + "." + n, true
		}
		return n, true
	case *ssa.Field:
		n := fieldNameV(x.X.Type(), x.Field)
		if base, ok := fieldPathOf(x.X); ok && base != "" {
			return base + "." + n, true
		}
		return n, true
	case *ssa.Alloc, *ssa.Parameter:
		return "", true
	}
	return "", false
}

// signLeaf gives a structural name to a leaf of an affine form so that the same expression computed twice
// (go/ssa does no CSE) compares equal.
func signLeaf(v ssa.Value, depth int) string {
	if depth > 6 {
		return valOrd(v)
	}
	switch x := v.(type) {
	case *ssa.Const:
		return x.Value.String()
	case *ssa.Parameter:
		return "param:" + x.Name()
	case *ssa.Convert:
		return signLeaf(x.X, depth+1)
	case *ssa.ChangeType:
		return signLeaf(x.X, depth+1)
	case *ssa.Slice:
		lo, hi := "", ""
		if x.Low != nil {
			lo = signLeaf(x.Low, depth+1)
		}
		if x.High != nil {
			hi = signLeaf(x.High, depth+1)
		}
		return signLeaf(x.X, depth+1) + "[" + lo + ":" + hi + "]"
	case *ssa.Extract:
		return fmt.Sprintf("%s#%d", signLeaf(x.Tuple, depth+1), x.Index)
	case *ssa.Call:
		// one call instruction is one value: two calls of the same pure helper on the same arguments are the same number
		if sc := x.Call.StaticCallee(); sc != nil {
			var as []string
			for _, a := range x.Call.Args {
				as = append(as, signLeaf(a, depth+1))
			}
			if sc.Name() == "parseStrUint" {
				return sc.Name() + "(" + strings.Join(as, ",") + ")"
			}
		}
		return "call@" + valOrd(v)
	case *ssa.UnOp:
		if x.Op == token.MUL {
			if pth, ok := fieldPathOf(x.X); ok && pth != "" {
				return "field:" + pth
			}
			if ia, ok := x.X.(*ssa.IndexAddr); ok {
				return signLeaf(ia.X, depth+1) + "[" + signLeaf(ia.Index, depth+1) + "]"
			}
		}
	}
	return valOrd(v)
}

// valOrd names an SSA value by its place in its function (deterministic, distinct per instruction).
func valOrd(v ssa.Value) string {
	if in, ok := v.(ssa.Instruction); ok && in.Block() != nil {
		for i, x := range in.Block().Instrs {
			if x == in {
				return fmt.Sprintf("%s.b%d.%d", shortVal(v), in.Block().Index, i)
			}
		}
	}
	return shortVal(v)
}

type symAff struct {
	C int64
	T map[string]int64
}

func (a symAff) String() string {
	var ks []string
	for k := range a.T {
		ks = append(ks, k)
	}
	sort.Strings(ks)
	var parts []string
	for _, k := range ks {
		parts = append(parts, fmt.Sprintf("%d*%s", a.T[k], k))
	}
	if a.C != 0 || len(parts) == 0 {
		parts = append(parts, fmt.Sprint(a.C))
	}
	return strings.Join(parts, " + ")
}

func (a symAff) add(b symAff, s int64) symAff {
	o := symAff{C: a.C + s*b.C, T: map[string]int64{}}
	for k, v := range a.T {
		o.T[k] = v
	}
	for k, v := range b.T {
		o.T[k] += s * v
		if o.T[k] == 0 {
			delete(o.T, k)
		}
	}
	return o
}

func (a symAff) isZero() bool { return a.C == 0 && len(a.T) == 0 }

// contradicts: does the list of branch conditions contradict "tag == want"?
func contradictsTag(cs []Cond, tag ssa.Value, want int64) bool {
	for _, cd := range cs {
		bo, ok := cd.V.(*ssa.BinOp)
		if !ok || (bo.Op != token.EQL && bo.Op != token.NEQ) {
			continue
		}
		var other ssa.Value
		switch {
		case bo.X == tag:
			other = bo.Y
		case bo.Y == tag:
			other = bo.X
		default:
			continue
		}
		k, ok := constInt(other)
		if !ok {
			continue
		}
		holdsEq := (bo.Op == token.EQL) == cd.True // the path asserts tag == k (true) or tag != k (false)
		if holdsEq && k != want {
			return true
		}
		if !holdsEq && k == want {
			return true
		}
	}
	return false
}

// evalUnder evaluates an integer value as an affine form over structurally named leaves on the paths where
// tag == want; a phi is resolved to the incoming edges that are feasible under that assumption.
func evalUnder(v ssa.Value, tag ssa.Value, want int64, depth int) symAff {
	leaf := func() symAff { return symAff{T: map[string]int64{signLeaf(v, 0): 1}} }
	if depth > 24 {
		return leaf()
	}
	switch x := v.(type) {
	case *ssa.Const:
		if k, ok := constInt(x); ok {
			return symAff{C: k, T: map[string]int64{}}
		}
	case *ssa.Convert:
		if isIntType(x.X.Type()) && isIntType(x.Type()) {
			return evalUnder(x.X, tag, want, depth+1)
		}
	case *ssa.ChangeType:
		return evalUnder(x.X, tag, want, depth+1)
	case *ssa.UnOp:
		if x.Op == token.SUB {
			return symAff{T: map[string]int64{}}.add(evalUnder(x.X, tag, want, depth+1), -1)
		}
	case *ssa.BinOp:
		switch x.Op {
		case token.ADD:
			return evalUnder(x.X, tag, want, depth+1).add(evalUnder(x.Y, tag, want, depth+1), 1)
		case token.SUB:
			return evalUnder(x.X, tag, want, depth+1).add(evalUnder(x.Y, tag, want, depth+1), -1)
		case token.MUL:
			a, b := evalUnder(x.X, tag, want, depth+1), evalUnder(x.Y, tag, want, depth+1)
			if len(a.T) == 0 {
				return symAff{T: map[string]int64{}}.add(b, a.C)
			}
			if len(b.T) == 0 {
				return symAff{T: map[string]int64{}}.add(a, b.C)
			}
		}
	case *ssa.Phi:
		var got *symAff
		for i, e := range x.Edges {
			if contradictsTag(edgeConds(x.Block().Preds[i], x.Block()), tag, want) {
				continue
			}
			a := evalUnder(e, tag, want, depth+1)
			if got == nil {
				got = &a
			} else if !got.add(a, -1).isZero() {
				return leaf()
			}
		}
		if got != nil {
			return *got
		}
	}
	return leaf()
}

func ruleSign(p *Prog, r *Report) {
	// ---- OFFSET
	func() {
		key := "exif2.(*ifdReader).ParseOffsetTime | '-' negates the whole offset"
		f := p.Func("exif2", "*ifdReader", "ParseOffsetTime")
		gl := p.Func("exif2", "", "getLocation")
		if f == nil || gl == nil {
			r.Undecided("SIGN", key, "-", "unresolved anchor (ParseOffsetTime / getLocation)")
			return
		}
		at := p.posStr(f.Pos())
		// the sign byte: a value compared with both '-' and '+'
		cmp := map[ssa.Value]map[int64]bool{}
		eachInstr(f, func(_ *ssa.BasicBlock, _ int, in ssa.Instruction) {
			bo, ok := in.(*ssa.BinOp)
			if !ok || (bo.Op != token.EQL && bo.Op != token.NEQ) {
				return
			}
			x, y := bo.X, bo.Y
			if _, isC := x.(*ssa.Const); isC {
				x, y = y, x
			}
			if k, ok := constInt(y); ok && (k == '-' || k == '+') {
				if cmp[x] == nil {
					cmp[x] = map[int64]bool{}
				}
				cmp[x][k] = true
			}
		})
		var tag ssa.Value
		for v, ks := range cmp {
			if ks['-'] && ks['+'] {
				if tag != nil && tag != v {
					r.Undecided("SIGN", key, at, "more than one value is compared with '-' and '+'")
					return
				}
				tag = v
			}
		}
		if tag == nil {
			r.Undecided("SIGN", key, at, "no value compared with both '-' and '+' found")
			return
		}
		forms := map[int64]symAff{}
		for _, sign := range []int64{'-', '+'} {
			var got *symAff
			n := 0
			bad := ""
			eachCall(f, func(site ssa.CallInstruction) {
				if site.Common().StaticCallee() != gl || len(site.Common().Args) != 1 {
					return
				}
				if contradictsTag(condsAt(site.Block()), tag, sign) {
					return
				}
				n++
				a := evalUnder(site.Common().Args[0], tag, sign, 0)
				if got == nil {
					got = &a
				} else if !got.add(a, -1).isZero() {
					bad = fmt.Sprintf("two different offsets reach getLocation for sign %q: %s and %s", rune(sign), got, a)
				}
			})
			if n == 0 {
				r.Undecided("SIGN", key, at, fmt.Sprintf("no getLocation call is reachable for sign %q", rune(sign)))
				return
			}
			if bad != "" {
				r.Bad("SIGN", key, at, bad)
				return
			}
			forms[sign] = *got
		}
		minus, plus := forms['-'], forms['+']
		if !minus.add(plus, 1).isZero() {
			r.Bad("SIGN", key, at, fmt.Sprintf("offset for '-' is %s and for '+' is %s: they are not negations of each other, so a negative zone with minutes is shifted", minus, plus))
			return
		}
		if plus.isZero() {
			r.Bad("SIGN", key, at, "the offset handed to getLocation is constant zero")
			return
		}
		// magnitude when the digits are read by parseStrUint on constant windows of one buffer
		recognised := true
		var buf string
		win := map[string]int64{}
		for k, c := range plus.T {
			if !strings.HasPrefix(k, "parseStrUint(") {
				recognised = false
				break
			}
			inner := strings.TrimSuffix(strings.TrimPrefix(k, "parseStrUint("), ")")
			i := strings.LastIndex(inner, "[")
			if i < 0 {
				recognised = false
				break
			}
			if buf != "" && buf != inner[:i] {
				recognised = false
				break
			}
			buf = inner[:i]
			win[inner[i:]] = c
		}
		if recognised && plus.C == 0 {
			if len(win) != 2 || win["[1:3]"] != 3600 || win["[4:6]"] != 60 {
				r.Bad("SIGN", key, at, fmt.Sprintf("offset is %s, want 3600*digits[1:3] + 60*digits[4:6] (\"±HH:MM\")", plus))
				return
			}
			r.OK("SIGN", key, at, fmt.Sprintf("'+': %s; '-': %s (exact negation; ±HH:MM in seconds)", plus, minus))
			return
		}
		r.OK("SIGN", key, at, fmt.Sprintf("'+': %s; '-': %s (exact negation; digit form not recognised, magnitude not decided)", plus, minus))
	}()

	// ---- GPSREF
	func() {
		f := p.Func("exif2", "*ifdReader", "ParseGPSRef")
		if f == nil {
			r.Undecided("SIGN", "exif2.(*ifdReader).ParseGPSRef | reference constants", "-", "unresolved anchor")
			return
		}
		// Exif 2.32 (CIPA DC-008) GPS IFD: tag id → the value that means "negative"
		want := []struct {
			id   int64
			name string
			neg  int64
		}{{0x0001, "GPSLatitudeRef", 'S'}, {0x0003, "GPSLongitudeRef", 'W'}, {0x0005, "GPSAltitudeRef", 1}}
		// collect byte comparisons and the tag-id conditions that dominate them
		type hit struct {
			k  int64
			op token.Token
			at string
		}
		got := map[int64][]hit{}
		eachInstr(f, func(b *ssa.BasicBlock, _ int, in ssa.Instruction) {
			bo, ok := in.(*ssa.BinOp)
			if !ok || (bo.Op != token.EQL && bo.Op != token.NEQ) {
				return
			}
			x, y := bo.X, bo.Y
			if _, isC := x.(*ssa.Const); isC {
				x, y = y, x
			}
			k, ok := constInt(y)
			if !ok {
				return
			}
			// the compared value must be a byte read from a buffer
			ld, ok := stripChange(x).(*ssa.UnOp)
			if !ok || ld.Op != token.MUL {
				return
			}
			if _, ok := ld.X.(*ssa.IndexAddr); !ok {
				return
			}
			for _, cd := range condsAt(b) {
				cb, ok := cd.V.(*ssa.BinOp)
				if !ok || cb.Op != token.EQL || !cd.True {
					continue
				}
				cx, cy := cb.X, cb.Y
				if _, isC := cx.(*ssa.Const); isC {
					cx, cy = cy, cx
				}
				id, ok := constInt(cy)
				if !ok || !strings.HasSuffix(cy.Type().String(), "tag.ID") {
					continue
				}
				got[id] = append(got[id], hit{k, bo.Op, p.posStr(instrPos(bo))})
			}
		})
		for _, w := range want {
			key := fmt.Sprintf("exif2.(*ifdReader).ParseGPSRef | %s negative when %d", w.name, w.neg)
			hs := got[w.id]
			switch {
			case len(hs) == 0:
				r.Undecided("SIGN", key, p.posStr(f.Pos()), fmt.Sprintf("no byte comparison found under tag id 0x%04x", w.id))
			case len(hs) > 1:
				r.Undecided("SIGN", key, hs[0].at, "more than one byte comparison under this tag id")
			case hs[0].op != token.EQL || hs[0].k != w.neg:
				r.Bad("SIGN", key, hs[0].at, fmt.Sprintf("the reference byte is compared %s %d, the specification's negative value is %d", hs[0].op, hs[0].k, w.neg))
			default:
				r.OK("SIGN", key, hs[0].at, "reference byte == the specification's negative value")
			}
		}
	}()

	// ---- NEG
	for _, acc := range []struct{ name, val, ref string }{{"Latitude", "latitude", "latitudeRef"}, {"Longitude", "longitude", "longitudeRef"}, {"Altitude", "altitude", "altitudeRef"}} {
		key := fmt.Sprintf("exif2.(GPSInfo).%s | -%s under %s, %s otherwise", acc.name, acc.val, acc.ref, acc.val)
		f := p.Func("exif2", "GPSInfo", acc.name)
		if f == nil {
			r.Undecided("SIGN", key, "-", "unresolved anchor")
			continue
		}
		at := p.posStr(f.Pos())
		// classify a returned value: (sign, field)
		var classify func(v ssa.Value, depth int) (int, string, bool)
		classify = func(v ssa.Value, depth int) (int, string, bool) {
			if depth > 6 {
				return 0, "", false
			}
			switch x := v.(type) {
			case *ssa.UnOp:
				if x.Op == token.SUB {
					s, fl, ok := classify(x.X, depth+1)
					return -s, fl, ok
				}
				if x.Op == token.MUL {
					if pth, ok := fieldPathOf(x.X); ok && pth != "" {
						return 1, pth, true
					}
				}
			case *ssa.Field:
				if pth, ok := fieldPathOf(x); ok && pth != "" {
					return 1, pth, true
				}
			case *ssa.BinOp:
				if x.Op == token.MUL {
					for _, pr := range [][2]ssa.Value{{x.X, x.Y}, {x.Y, x.X}} {
						if c, ok := pr[0].(*ssa.Const); ok && c.Value != nil {
							if c.Value.String() == "-1" {
								s, fl, ok := classify(pr[1], depth+1)
								return -s, fl, ok
							}
							if c.Value.String() == "1" {
								return classify(pr[1], depth+1)
							}
						}
					}
				}
				if x.Op == token.SUB {
					if c, ok := x.X.(*ssa.Const); ok && c.Value != nil && c.Value.String() == "0" {
						s, fl, ok := classify(x.Y, depth+1)
						return -s, fl, ok
					}
				}
			}
			return 0, "", false
		}
		// every returned value with the truth of the ref flag on its path
		type retv struct {
			v   ssa.Value
			ref int // +1 flag true, -1 flag false, 0 unknown
		}
		var rets []retv
		refTruth := func(cs []Cond) int {
			for _, cd := range cs {
				if pth, ok := fieldPathOf(cd.V); ok && pth == acc.ref {
					if cd.True {
						return 1
					}
					return -1
				}
			}
			return 0
		}
		eachInstr(f, func(b *ssa.BasicBlock, _ int, in ssa.Instruction) {
			rt, ok := in.(*ssa.Return)
			if !ok || len(rt.Results) != 1 {
				return
			}
			if ph, ok := rt.Results[0].(*ssa.Phi); ok {
				for i, e := range ph.Edges {
					rets = append(rets, retv{e, refTruth(edgeConds(ph.Block().Preds[i], ph.Block()))})
				}
				return
			}
			rets = append(rets, retv{rt.Results[0], refTruth(condsAt(b))})
		})
		bad := ""
		seen := map[int]bool{}
		for _, rv := range rets {
			s, fl, ok := classify(rv.v, 0)
			switch {
			case !ok || rv.ref == 0:
				bad = "a returned value is not ±(a field of the receiver) under a test of " + acc.ref
			case fl != acc.val:
				bad = fmt.Sprintf("returns field %s, want %s", fl, acc.val)
			case s != -rv.ref:
				bad = fmt.Sprintf("with %s = %v the result has sign %+d", acc.ref, rv.ref > 0, s)
			}
			seen[rv.ref] = true
		}
		if bad == "" && (!seen[1] || !seen[-1]) {
			bad = "the accessor does not distinguish the two hemispheres"
		}
		if bad != "" {
			r.Bad("SIGN", key, at, bad)
		} else {
			r.OK("SIGN", key, at, "negated exactly when the reference flag is set")
		}
	}

	// ---- UNITS
	type unit struct {
		typ, name string
		want      map[string]int64 // leaf → nanoseconds per unit
	}
	const ms, sec = int64(1_000_000), int64(1_000_000_000)
	for _, u := range []unit{
		{"Exif", "ModifyDate", map[string]int64{"field:Time.subSecTime": ms, "zone": -sec}},
		{"Exif", "DateTimeOriginal", map[string]int64{"field:Time.subSecTimeOriginal": ms, "zone": -sec}},
		{"Exif", "CreateDate", map[string]int64{"field:Time.subSecTimeDigitized": ms, "zone": -sec}},
		{"GPSInfo", "Date", map[string]int64{"field:time": sec}},
	} {
		f := p.Func("exif2", u.typ, u.name)
		key := fmt.Sprintf("exif2.(%s).%s | units of the durations added", u.typ, u.name)
		if f == nil {
			r.Undecided("SIGN", key, "-", "unresolved anchor")
			continue
		}
		at := p.posStr(f.Pos())
		// the accessor and the library functions it calls (a helper may hold the arithmetic)
		fns := []*ssa.Function{f}
		seenF := map[*ssa.Function]bool{f: true}
		for i := 0; i < len(fns) && i < 16; i++ {
			eachCall(fns[i], func(site ssa.CallInstruction) {
				for _, g := range p.Callees(site) {
					if isLibFn(g) && g.Blocks != nil && !seenF[g] && g.Pkg == f.Pkg {
						seenF[g] = true
						fns = append(fns, g)
					}
				}
			})
		}
		found := map[string]bool{}
		bad := ""
		for _, g := range fns {
			eachCall(g, func(site ssa.CallInstruction) {
				c := site.Common()
				sc := c.StaticCallee()
				if sc == nil || sc.Name() != "Add" || sc.Pkg == nil || sc.Pkg.Pkg.Path() != "time" || len(c.Args) != 2 {
					return
				}
				a := evalUnder(c.Args[1], nil, 0, 0)
				for k, coef := range a.T {
					name := k
					if strings.HasSuffix(k, "#1") && strings.HasPrefix(k, "call@") {
						// Extract #1 of a call: is it (time.Time).Zone?
						name = ""
						eachInstr(g, func(_ *ssa.BasicBlock, _ int, in ssa.Instruction) {
							if ex, ok := in.(*ssa.Extract); ok && ex.Index == 1 && signLeaf(ex, 0) == k {
								if cl, ok := ex.Tuple.(*ssa.Call); ok {
									if z := cl.Call.StaticCallee(); z != nil && z.Name() == "Zone" && z.Pkg != nil && z.Pkg.Pkg.Path() == "time" {
										name = "zone"
									}
								}
							}
						})
					}
					w, ok := u.want[name]
					if !ok {
						continue
					}
					found[name] = true
					if coef != w {
						bad = fmt.Sprintf("%s is added with %d ns per unit, want %d", name, coef, w)
					}
				}
			})
		}
		if bad != "" {
			r.Bad("SIGN", key, at, bad)
			continue
		}
		var missing []string
		for k := range u.want {
			if !found[k] {
				missing = append(missing, k)
			}
		}
		sort.Strings(missing)
		if len(missing) > 0 {
			r.Undecided("SIGN", key, at, "no time.Time.Add of "+strings.Join(missing, ", ")+" found in the accessor or its helpers")
			continue
		}
		r.OK("SIGN", key, at, "sub-seconds in milliseconds, GPS time in seconds, zone shift = -offset seconds")
	}
}

// ---- VALFETCH: an out-of-line value is fetched at its offset with its full size -----------------------------

// ruleValFetch: exif2.(*ifdReader).readTagValue — the one place every out-of-line value passes through — skips
// exactly ValueOffset − po bytes and then reads exactly Size() bytes of the current tag. A clamped, rounded or
// otherwise altered length hands the value parsers a value that is not the one encoded in the file.
func ruleValFetch(p *Prog, r *Report) {
	f := p.Func("exif2", "*ifdReader", "readTagValue")
	keyD := "exif2.(*ifdReader).readTagValue | skips ValueOffset - po"
	keyR := "exif2.(*ifdReader).readTagValue | reads Size() bytes"
	if f == nil {
		r.Undecided("VALFETCH", keyD, "-", "unresolved anchor")
		r.Undecided("VALFETCH", keyR, "-", "unresolved anchor")
		return
	}
	// the tag: the result of currentTag (possibly spilled to a local)
	isCurTag := func(v ssa.Value) bool {
		for i := 0; i < 4; i++ {
			switch x := v.(type) {
			case *ssa.Call:
				sc := x.Call.StaticCallee()
				return sc != nil && sc.Name() == "currentTag"
			case *ssa.UnOp:
				if x.Op != token.MUL {
					return false
				}
				al, ok := x.X.(*ssa.Alloc)
				if !ok {
					return false
				}
				var val ssa.Value
				n := 0
				for _, rf := range refs(al) {
					if st, ok := rf.(*ssa.Store); ok && st.Addr == ssa.Value(al) {
						val = st.Val
						n++
					}
				}
				if n != 1 {
					return false
				}
				v = val
			default:
				return false
			}
		}
		return false
	}
	tagField := func(v ssa.Value, field string) bool {
		switch x := v.(type) {
		case *ssa.Field:
			return fieldNameV(x.X.Type(), x.Field) == field && isCurTag(x.X)
		case *ssa.UnOp:
			if x.Op == token.MUL {
				if fa, ok := x.X.(*ssa.FieldAddr); ok && fieldName(fa.X.Type(), fa.Field) == field {
					if al, ok := fa.X.(*ssa.Alloc); ok {
						ld := &ssa.UnOp{Op: token.MUL, X: al}
						_ = ld
						// the local holds the current tag
						n := 0
						okTag := false
						for _, rf := range refs(al) {
							if st, ok := rf.(*ssa.Store); ok && st.Addr == ssa.Value(al) {
								n++
								okTag = isCurTag(st.Val)
							}
						}
						return n == 1 && okTag
					}
				}
			}
		}
		return false
	}
	recvField := func(v ssa.Value, field string) bool {
		if u, ok := v.(*ssa.UnOp); ok && u.Op == token.MUL {
			if fa, ok := u.X.(*ssa.FieldAddr); ok && fieldName(fa.X.Type(), fa.Field) == field {
				_, isParam := fa.X.(*ssa.Parameter)
				return isParam
			}
		}
		return false
	}
	var nD, nR int
	badD, badR := "", ""
	atD, atR := p.posStr(f.Pos()), p.posStr(f.Pos())
	eachCall(f, func(site ssa.CallInstruction) {
		sc := site.Common().StaticCallee()
		if sc == nil || len(site.Common().Args) != 2 {
			return
		}
		arg := site.Common().Args[1]
		switch sc.Name() {
		case "discard":
			nD++
			atD = p.posStr(instrPos(site))
			a := affineOf(arg, 0)
			okForm := len(a.Terms) == 2 && a.C == 0
			for k, c := range a.Terms {
				v, isV := k.(ssa.Value)
				switch {
				case !isV:
					okForm = false
				case c == 1 && tagField(v, "ValueOffset"):
				case c == -1 && recvField(v, "po"):
				default:
					okForm = false
				}
			}
			if !okForm {
				badD = "the amount skipped before the value is " + a.String() + ", want (current tag).ValueOffset - ir.po"
			}
		case "fastRead":
			nR++
			atR = p.posStr(instrPos(site))
			v := stripConv(arg)
			c, ok := v.(*ssa.Call)
			if !ok || c.Call.StaticCallee() == nil || c.Call.StaticCallee().Name() != "Size" || len(c.Call.Args) != 1 || !isCurTag(c.Call.Args[0]) {
				badR = "the length read is " + shortVal(arg) + ", want exactly (current tag).Size(): a clamped or altered length truncates or pads the value the parsers see"
			}
		}
	})
	if nD != 1 && badD == "" {
		badD = fmt.Sprintf("%d discard calls found, want one", nD)
	}
	if nR != 1 && badR == "" {
		badR = fmt.Sprintf("%d fastRead calls found, want one", nR)
	}
	if badD != "" {
		r.Bad("VALFETCH", keyD, atD, badD)
	} else {
		r.OK("VALFETCH", keyD, atD, "discard(int(t.ValueOffset) - int(ir.po)) on the current tag")
	}
	if badR != "" {
		r.Bad("VALFETCH", keyR, atR, badR)
	} else {
		r.OK("VALFETCH", keyR, atR, "fastRead(int(t.Size())) on the current tag")
	}
}

// ---- ROUTE: every decoded directory entry reaches the value dispatch -----------------------------------------

// ruleRoute: in exif2.(*ifdReader).readIfdHeader every entry that tagFromBuffer decoded without error passes, on
// every path to the next iteration, either parseTag (value embedded in the entry) or addTagBuffer (value out of
// line, parsed when the stream reaches it). A path that skips both drops a tag before the dispatch table that
// DISPATCH checks is ever consulted.
func ruleRoute(p *Prog, r *Report) {
	f := p.Func("exif2", "*ifdReader", "readIfdHeader")
	key := "exif2.(*ifdReader).readIfdHeader | every decoded entry reaches parseTag or addTagBuffer"
	if f == nil {
		r.Undecided("ROUTE", key, "-", "unresolved anchor")
		return
	}
	var dec *ssa.Call
	sink := map[*ssa.BasicBlock]bool{}
	nSink := 0
	eachCall(f, func(site ssa.CallInstruction) {
		sc := site.Common().StaticCallee()
		if sc == nil {
			return
		}
		switch sc.Name() {
		case "tagFromBuffer":
			if c, ok := site.(*ssa.Call); ok {
				dec = c
			}
		case "parseTag", "addTagBuffer":
			sink[site.Block()] = true
			nSink++
		}
	})
	if dec == nil || nSink == 0 {
		r.Undecided("ROUTE", key, p.posStr(f.Pos()), "tagFromBuffer / parseTag / addTagBuffer calls not found")
		return
	}
	at := p.posStr(instrPos(dec))
	var loop *Loop
	for _, l := range findLoops(f) {
		if l.Blocks[dec.Block()] && (loop == nil || len(l.Blocks) < len(loop.Blocks)) {
			loop = l
		}
	}
	if loop == nil {
		r.Undecided("ROUTE", key, at, "the entry loop was not found")
		return
	}
	// the nil-error successor of the test on tagFromBuffer's error
	blk := dec.Block()
	ifi, ok := blk.Instrs[len(blk.Instrs)-1].(*ssa.If)
	if !ok {
		r.Undecided("ROUTE", key, at, "no error test after tagFromBuffer")
		return
	}
	isErr, nilIdx := errBranch(ifi)
	if !isErr {
		r.Undecided("ROUTE", key, at, "the test after tagFromBuffer is not an error test")
		return
	}
	start := blk.Succs[nilIdx]
	seen := map[*ssa.BasicBlock]bool{start: true}
	st := []*ssa.BasicBlock{start}
	escaped := ""
	if sink[start] {
		st = nil
	}
	for len(st) > 0 && escaped == "" {
		b := st[len(st)-1]
		st = st[:len(st)-1]
		for _, s := range b.Succs {
			if s == loop.Head || !loop.Blocks[s] {
				escaped = fmt.Sprintf("the path through block %q (ending at %s) reaches the next entry", b.Comment, p.posStr(instrPos(b.Instrs[len(b.Instrs)-1])))
				break
			}
			if !seen[s] && !sink[s] {
				seen[s] = true
				st = append(st, s)
			}
		}
	}
	if escaped != "" {
		r.Bad("ROUTE", key, at, escaped+" without parseTag or addTagBuffer: some entries are dropped before the dispatch")
	} else {
		r.OK("ROUTE", key, at, fmt.Sprintf("%d sinks; every path from the decoded entry to the next iteration passes one", nSink))
	}
}

// ruleRouteQueue: the second half of ROUTE. addTagBuffer may decline to queue a tag only for reasons of layout and
// capacity (its offset lies behind the reader, the queue is full, its offset duplicates a queued one) — never for
// which tag it is. Every return of addTagBuffer that is not preceded by a store of the tag into the queue must
// depend only on conditions over offsets, the fill level and the log level.
func ruleRouteQueue(p *Prog, r *Report) {
	// room is made before a sub-directory is read: resetPosition compacts in every legal state of the queue
	{
		key := "exif2.(*buffer).resetPosition | consumed tags are dropped whenever 0 < pos <= len <= cap"
		at := "-"
		if g := p.Func("exif2", "*buffer", "resetPosition"); g != nil {
			at = p.posStr(g.Pos())
		}
		if w := queueCompacts(p); w != "" {
			r.Bad("ROUTE", key, at, w+": the queue stays full, addTagBuffer declines the tags of the sub-directory and their values are silently lost")
		} else {
			r.OK("ROUTE", key, at, "under 0 < pos <= len <= cap(tag) every path stores pos = 0 (the compaction) before it returns")
		}
	}
	f := p.Func("exif2", "*ifdReader", "addTagBuffer")
	key := "exif2.(*ifdReader).addTagBuffer | a tag is declined only for its offset or a full queue"
	if f == nil || len(f.Params) < 2 {
		r.Undecided("ROUTE", key, "-", "unresolved anchor")
		return
	}
	lp := discoverLevelPreds(p, p.AllLibFns())
	// blocks that store into the queue array
	storeBlocks := map[*ssa.BasicBlock]bool{}
	eachInstr(f, func(b *ssa.BasicBlock, _ int, in ssa.Instruction) {
		if st, ok := in.(*ssa.Store); ok {
			if ia, ok := st.Addr.(*ssa.IndexAddr); ok {
				if fa, ok := ia.X.(*ssa.FieldAddr); ok && fieldName(fa.X.Type(), fa.Field) == "tag" {
					storeBlocks[b] = true
				}
			}
		}
	})
	if len(storeBlocks) == 0 {
		r.Undecided("ROUTE", key, p.posStr(f.Pos()), "no store into the tag queue found")
		return
	}
	identity := map[string]bool{"ID": true, "Ifd": true, "Type": true, "UnitCount": true, "IfdIndex": true, "ByteOrder": true}
	var why func(v ssa.Value, depth int) string
	why = func(v ssa.Value, depth int) string {
		if depth > 8 {
			return ""
		}
		switch x := v.(type) {
		case *ssa.Call:
			if isLevelCond(x, lp) {
				return ""
			}
			if sc := x.Call.StaticCallee(); sc != nil {
				if lp[sc] {
					return ""
				}
				if _, isB := x.Call.Value.(*ssa.Builtin); !isB {
					return "the result of " + fnName(sc)
				}
			}
		case *ssa.Field:
			if n := fieldNameV(x.X.Type(), x.Field); identity[n] {
				return "the tag's " + n
			}
		case *ssa.FieldAddr:
			if n := fieldName(x.X.Type(), x.Field); identity[n] && strings.HasSuffix(derefType(x.X.Type()).String(), "exif2.Tag") {
				return "the tag's " + n
			}
		}
		if in, ok := v.(ssa.Instruction); ok {
			var ops []*ssa.Value
			for _, op := range in.Operands(ops) {
				if *op != nil {
					if w := why(*op, depth+1); w != "" {
						return w
					}
				}
			}
		}
		return ""
	}
	bad := ""
	n := 0
	for _, b := range f.Blocks {
		ret, ok := b.Instrs[len(b.Instrs)-1].(*ssa.Return)
		if !ok {
			continue
		}
		stored := false
		for sb := range storeBlocks {
			if sb == b || sb.Dominates(b) {
				stored = true
			}
		}
		if stored {
			continue
		}
		n++
		for _, cd := range condsAt(b) {
			if w := why(cd.V, 0); w != "" {
				bad = fmt.Sprintf("the return at %s leaves the tag unqueued under a condition on %s: tags are dropped for what they are, before parseTag's dispatch is consulted", p.posStr(instrPos(ret)), w)
			}
		}
	}
	if bad != "" {
		r.Bad("ROUTE", key, p.posStr(f.Pos()), bad)
	} else {
		r.OK("ROUTE", key, p.posStr(f.Pos()), fmt.Sprintf("%d declining returns, each under conditions on offsets, fill level or log level only", n))
	}
}

// ---- ZONE: getLocation yields a zone for every offset ---------------------------------------------------
//
// The time accessors take a nil *time.Location for "no offset tag in the file" and report the timestamp in UTC.
// exif2.getLocation must therefore never return nil: every value it returns is the result of time.FixedZone (or
// of a library function all of whose returns are), a value found in a map of which every insert is such a
// result, or an element of a table that a counted loop provably fills from its first to its last index with
// such results.
func ruleZone(p *Prog, r *Report) {
	f := p.Func("exif2", "", "getLocation")
	key := "exif2.getLocation | never returns nil"
	if f == nil {
		r.Undecided("ZONE", key, "-", "unresolved anchor")
		return
	}
	at := p.posStr(f.Pos())
	bad := ""
	nRet := 0
	eachInstr(f, func(_ *ssa.BasicBlock, _ int, in ssa.Instruction) {
		rt, ok := in.(*ssa.Return)
		if !ok || len(rt.Results) != 1 {
			return
		}
		nRet++
		if w := nonNilZone(p, rt.Results[0], 0, map[ssa.Value]bool{}); w != "" {
			bad = fmt.Sprintf("the value returned at %s may be nil (%s): the accessors take a nil zone for an absent offset tag and report the time in UTC", p.posStr(instrPos(rt)), w)
		}
	})
	if bad != "" {
		r.Bad("ZONE", key, at, bad)
	} else {
		r.OK("ZONE", key, at, fmt.Sprintf("%d returns: a time.FixedZone result, a cached one, or an element of a fully filled table", nRet))
	}
}

// nonNilZone: "" when v is provably a non-nil pointer by the three accepted origins.
func nonNilZone(p *Prog, v ssa.Value, d int, seen map[ssa.Value]bool) string {
	if d > 8 {
		return "origin too deep"
	}
	if seen[v] {
		return ""
	}
	seen[v] = true
	switch x := v.(type) {
	case *ssa.Call:
		sc := x.Call.StaticCallee()
		if sc == nil {
			return "result of a dynamic call"
		}
		if sc.String() == "time.FixedZone" {
			return ""
		}
		if !isRepoFn(sc) || len(sc.Blocks) == 0 {
			return "result of " + sc.String()
		}
		why := ""
		eachInstr(sc, func(_ *ssa.BasicBlock, _ int, in ssa.Instruction) {
			if rt, ok := in.(*ssa.Return); ok && len(rt.Results) == 1 && why == "" {
				why = nonNilZone(p, rt.Results[0], d+1, seen)
			}
		})
		return why
	case *ssa.Phi:
		for _, e := range x.Edges {
			if w := nonNilZone(p, e, d+1, seen); w != "" {
				return w
			}
		}
		return ""
	case *ssa.Extract:
		// z, ok := m[k] — accepted when every insert into m is non-nil (the ok test only decides presence)
		if lk, ok := x.Tuple.(*ssa.Lookup); ok && x.Index == 0 {
			return mapAllNonNil(p, lk.X, d, seen)
		}
	case *ssa.Lookup:
		return mapAllNonNil(p, x.X, d, seen) + ifNonEmpty(" (and a missing key yields nil)", true)
	case *ssa.UnOp:
		if x.Op == token.MUL {
			if ia, ok := x.X.(*ssa.IndexAddr); ok {
				return tableAllNonNil(p, ia.X, d, seen)
			}
			// a local cell (a result spilled because of a defer): every store into it must be non-nil
			if al, ok := x.X.(*ssa.Alloc); ok {
				n := 0
				for _, rf := range refs(al) {
					switch u := rf.(type) {
					case *ssa.Store:
						if u.Addr != ssa.Value(al) {
							return "a local whose address is stored"
						}
						n++
						if w := nonNilZone(p, u.Val, d+1, seen); w != "" {
							return w
						}
					case *ssa.UnOp, *ssa.DebugRef:
					default:
						return "a local whose address escapes"
					}
				}
				if n == 0 {
					return "a local that is never assigned"
				}
				return ""
			}
		}
	case *ssa.Index:
		return tableAllNonNil(p, x.X, d, seen)
	case *ssa.Const:
		if x.Value == nil {
			return "the nil constant"
		}
	}
	return "value of unrecognised origin (" + shortVal(v) + ")"
}

func ifNonEmpty(s string, c bool) string {
	if c {
		return s
	}
	return ""
}

func mapAllNonNil(p *Prog, m ssa.Value, d int, seen map[ssa.Value]bool) string {
	g := loadOfGlobal(m)
	if g == nil {
		return "lookup in a map that is not a package-level variable"
	}
	why := ""
	n := 0
	for fn := range p.AllFns() {
		if !isRepoFn(fn) {
			continue
		}
		eachInstr(fn, func(_ *ssa.BasicBlock, _ int, in ssa.Instruction) {
			mu, ok := in.(*ssa.MapUpdate)
			if !ok || loadOfGlobal(mu.Map) != g {
				return
			}
			n++
			if w := nonNilZone(p, mu.Value, d+1, seen); w != "" && why == "" {
				why = "an insert into " + globalName(g) + " stores " + w
			}
		})
	}
	return why
}

// tableAllNonNil: base is (the address of) a package-level array initialised by a call to a function that fills a
// local array completely with non-nil values in one counted loop, or such a local array itself.
func tableAllNonNil(p *Prog, base ssa.Value, d int, seen map[ssa.Value]bool) string {
	g := globalOf(base)
	if g == nil {
		if u, ok := base.(*ssa.UnOp); ok && u.Op == token.MUL {
			g = globalOf(u.X)
		}
	}
	if g == nil {
		return "element of a table that is not a package-level variable"
	}
	// the initialiser: Store g <- call in the package init
	var initVal ssa.Value
	nSt := 0
	for fn := range p.AllFns() {
		if !isRepoFn(fn) {
			continue
		}
		eachInstr(fn, func(_ *ssa.BasicBlock, _ int, in ssa.Instruction) {
			if st, ok := in.(*ssa.Store); ok && globalOf(st.Addr) == g {
				nSt++
				if st.Addr == ssa.Value(g) && isInitFn(fn) {
					initVal = st.Val
				} else {
					initVal = nil
					nSt += 100
				}
			}
		})
	}
	if nSt != 1 || initVal == nil {
		return "element of " + globalName(g) + ", which is not initialised by exactly one whole-table store in the package initialiser"
	}
	c, ok := initVal.(*ssa.Call)
	if !ok || c.Call.StaticCallee() == nil || len(c.Call.StaticCallee().Blocks) == 0 {
		return "element of " + globalName(g) + ", whose initialiser is not a call of a library function"
	}
	sc := c.Call.StaticCallee()
	why := ""
	eachInstr(sc, func(_ *ssa.BasicBlock, _ int, in ssa.Instruction) {
		rt, ok := in.(*ssa.Return)
		if !ok || len(rt.Results) != 1 || why != "" {
			return
		}
		ld, ok := rt.Results[0].(*ssa.UnOp)
		if !ok || ld.Op != token.MUL {
			why = "element of " + globalName(g) + ": the table returned by " + fnName(sc) + " is not a local array"
			return
		}
		al, ok := ld.X.(*ssa.Alloc)
		if !ok {
			why = "element of " + globalName(g) + ": the table returned by " + fnName(sc) + " is not a local array"
			return
		}
		if w := arrayFilledByLoop(p, sc, al, d, seen); w != "" {
			why = "element of " + globalName(g) + ": " + w
		}
	})
	return why
}

// arrayFilledByLoop: the local array al of fn receives, in a loop `for i := a; i </<= B; i++`, a store to al[i+c]
// on every iteration with a non-nil value, and {a+c .. last+c} covers 0 .. len-1.
func arrayFilledByLoop(p *Prog, fn *ssa.Function, al *ssa.Alloc, d int, seen map[ssa.Value]bool) string {
	pt, _ := al.Type().Underlying().(*types.Pointer)
	if pt == nil {
		return "not an array"
	}
	arr, _ := pt.Elem().Underlying().(*types.Array)
	if arr == nil {
		return "not an array"
	}
	N := arr.Len()
	loops := findLoops(fn)
	for _, rf := range refs(al) {
		ia, ok := rf.(*ssa.IndexAddr)
		if !ok {
			continue
		}
		for _, rf2 := range refs(ia) {
			st, ok := rf2.(*ssa.Store)
			if !ok || st.Addr != ssa.Value(ia) {
				continue
			}
			if w := nonNilZone(p, st.Val, d+1, seen); w != "" {
				return "the table is filled with " + w
			}
			a := affineOf(ia.Index, 0)
			var phi *ssa.Phi
			for k, co := range a.Terms {
				if ph, ok := k.(*ssa.Phi); ok && co == 1 && len(a.Terms) == 1 {
					phi = ph
				}
			}
			if phi == nil {
				continue
			}
			ind, ok := inductionOf(phi)
			if !ok || ind.Step != 1 || ind.Bound == nil {
				continue
			}
			init, ok1 := ind.Init.isConst()
			bound, ok2 := ind.Bound.isConst()
			if !ok1 || !ok2 {
				continue
			}
			// the comparison is on CmpOn = phi + k
			k := int64(0)
			if ind.CmpOn != nil {
				k = ind.CmpOn.C
			}
			var last int64
			switch ind.Op {
			case token.LSS:
				last = bound - 1 - k
			case token.LEQ:
				last = bound - k
			default:
				continue
			}
			// the store happens on every iteration: its block dominates every latch of the loop of phi
			var lp *Loop
			for _, l := range loops {
				if l.Head == phi.Block() {
					lp = l
				}
			}
			if lp == nil {
				continue
			}
			every := true
			for _, lt := range lp.Latch {
				if !st.Block().Dominates(lt) {
					every = false
				}
			}
			if !every {
				continue
			}
			lo, hi := init+a.C, last+a.C
			if lo <= 0 && hi >= N-1 {
				return ""
			}
			return fmt.Sprintf("the loop in %s fills elements %d..%d of a table of %d: the other elements stay nil", fnName(fn), lo, hi, N)
		}
	}
	return "no counted loop that fills the table was recognised in " + fnName(fn)
}

// ---- MAKEEXACT: the reported make/model is the file's own text, or the table name of an exact hit -----------------
//
// ParseCameraMake and ParseCameraModel return the name to report. It must be the value read from the file
// (string(ParseBuffer(t))) or, for an exact hit in a name table — a call of a *FromString lookup whose ok result is
// true on that path — the String() of the value found (MODELTBL shows that this reproduces the key). A name produced
// any other way (a prefix match, a normalised spelling, a default) is not what the file says.
func ruleMakeExact(p *Prog, r *Report) {
	for _, nm := range []string{"ParseCameraMake", "ParseCameraModel"} {
		f := p.Func("exif2", "*ifdReader", nm)
		key := "exif2.(*ifdReader)." + nm + " | the reported name is the file's text or an exact table hit"
		if f == nil {
			r.Undecided("MAKEEXACT", key, "-", "unresolved anchor")
			continue
		}
		at := p.posStr(f.Pos())
		bad := ""
		nRet := 0
		var okStr func(v ssa.Value, blk *ssa.BasicBlock, d int) string
		okStr = func(v ssa.Value, blk *ssa.BasicBlock, d int) string {
			if d > 6 {
				return "origin too deep"
			}
			switch x := v.(type) {
			case *ssa.Convert:
				// string(buf): buf must be the tag's value
				src := x.X
				for i := 0; i < 4; i++ {
					if sl, ok := src.(*ssa.Slice); ok {
						src = sl.X
						continue
					}
					break
				}
				if c, ok := src.(*ssa.Call); ok {
					if sc := c.Call.StaticCallee(); sc != nil && sc.Name() == "ParseBuffer" {
						return ""
					}
				}
				return "a string not converted from the tag's value"
			case *ssa.Phi:
				for i, e := range x.Edges {
					if w := okStr(e, x.Block().Preds[i], d+1); w != "" {
						return w
					}
				}
				return ""
			case *ssa.Call:
				sc := x.Call.StaticCallee()
				if sc == nil || sc.Name() != "String" || len(x.Call.Args) != 1 {
					return "the result of " + calleeName(&x.Call)
				}
				// the receiver: result 0 of a *FromString lookup (possibly converted), under its ok == true
				rv := x.Call.Args[0]
				for i := 0; i < 3; i++ {
					if cv, ok := rv.(*ssa.Convert); ok {
						rv = cv.X
					} else if ct, ok := rv.(*ssa.ChangeType); ok {
						rv = ct.X
					} else {
						break
					}
				}
				ex, ok := rv.(*ssa.Extract)
				if !ok || ex.Index != 0 {
					return "String() of a value that is not the result of a table lookup"
				}
				lk, ok := ex.Tuple.(*ssa.Call)
				if !ok || lk.Call.StaticCallee() == nil || !strings.HasSuffix(lk.Call.StaticCallee().Name(), "FromString") {
					return "String() of the result of " + shortVal(ex.Tuple) + ", which is not an exact *FromString lookup"
				}
				// FromString must be an exact map lookup: its body indexes a map with its parameter
				exact := false
				eachInstr(lk.Call.StaticCallee(), func(_ *ssa.BasicBlock, _ int, in ssa.Instruction) {
					if l, ok := in.(*ssa.Lookup); ok && l.CommaOk && len(lk.Call.StaticCallee().Params) == 1 && l.Index == ssa.Value(lk.Call.StaticCallee().Params[0]) {
						exact = true
					}
				})
				if !exact {
					return fnName(lk.Call.StaticCallee()) + " is not a plain map lookup of its argument"
				}
				hit := false
				for _, cd := range condsAt(x.Block()) {
					if e2, ok := cd.V.(*ssa.Extract); ok && cd.True && e2.Tuple == ex.Tuple && e2.Index == 1 {
						hit = true
					}
				}
				if !hit {
					return "String() of a lookup result without the lookup having succeeded on that path"
				}
				return ""
			}
			return "a value of unrecognised origin (" + shortVal(v) + ")"
		}
		eachInstr(f, func(b *ssa.BasicBlock, _ int, in ssa.Instruction) {
			rt, ok := in.(*ssa.Return)
			if !ok || len(rt.Results) != 2 {
				return
			}
			nRet++
			if w := okStr(rt.Results[1], b, 0); w != "" && bad == "" {
				bad = "the name returned at " + p.posStr(instrPos(rt)) + " is " + w + ": a well-formed file's Make/Model is then reported as something other than what the file says"
			}
		})
		if bad != "" {
			r.Bad("MAKEEXACT", key, at, bad)
		} else {
			r.OK("MAKEEXACT", key, at, fmt.Sprintf("%d returns: string(ParseBuffer(t)) or String() of an exact lookup hit", nRet))
		}
	}
}
