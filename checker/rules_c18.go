package main

// C18 — vectorised DCT kernels equal the portable kernels: COS, ASMMEM, CALLERLEN, FPMODE, SELECT (necessary
// conditions; bit-for-bit equality and the error bound are numerical run-time facts and are not decided).

import (
	"fmt"
	"go/ast"
	"go/token"
	"go/types"
	"math"
	"path/filepath"
	"regexp"
	"sort"
	"strconv"
	"strings"

	"golang.org/x/tools/go/ssa"
)

func init() { register("C18", true, checkC18) }

func asmPath(p *Prog) string {
	return filepath.Join(p.Repo, "imagehash", "transforms32", "asm_x86.s")
}

func checkC18(p *Prog, r *Report) {
	r.Explain("Bit-for-bit equality of the assembly and Go kernels and the error bound against DCT-II are numerical facts about ~4 000 vector instructions; comparing the two operation graphs would be symbolic execution and is declined. Decided necessary conditions: COS — every divisor table (Go tables dctN / dctN32 in transforms and transforms32, assembly DATA tables dct256…dct2) equals 2·cos((i+½)π/N): float64 tables within 1 ulp, float32 tables and the assembly decimals bit-exact after rounding to float32, and the assembly tables bit-equal to the Go tables of the same N; ASMMEM — every memory operand of asmForwardDCT64, asmForwardDCT256 and asmDCT2DHash64 (base pointer provenance, displacement, index range from the counted loops and the gather table, access width from a mnemonic table) lies inside the argument (4·N bytes), the declared frame, the data symbol or the argument/result area, and the base pointer is never overwritten; CALLERLEN — every Go call that can reach a kernel passes at least N elements (E3); FPMODE — no instruction outside the known data-processing mnemonics, in particular none that changes MXCSR; FLAT — the portable 2-D kernels store column i's coefficient j at flattens[K*j+i] and the assembly 2-D kernel stores its eight results per column at ret[8*m + column], m = 0..7 once each (same row-major layout; which lane holds which frequency is part of the numerical question); VECSAFE — no counted loop of a portable kernel reads an element that an earlier iteration of that loop wrote (dependence test on the affine indexes over the constant iteration space): the stages are order-free, as the vector formulation requires; REENT — no function of the two transform packages reachable from a DCT entry point writes package-level state (the kernels are re-entrant, like the stateless vector kernels); KBND — every index/slice into a buffer such a function allocated itself (make, local array) is proved in range by E3; SELECT — the kernel selection variables are written only in their initialisers and one init function, together, under FlagUseASM, and DCT2DHash64 takes the assembly 2-D kernel under the same flag. ROWPASS: each portable DCT2DHash64/256 runs its 1-D kernel on input[i*N : i*N+N] for i = 0..N-1 in a unit-step loop with a constant bound, on every iteration, before every return (a delegation of the whole buffer to the assembly kernel excepted) — no row reaches the column pass untransformed. OBLIV: no DCT kernel function (or callee) compares floating-point values or inspects them through math.IsNaN/IsInf/Signbit/…: the portable kernels perform the same operations on every input, as the vector kernels do. LASTLANE: the vector kernels form the pair sums of the 8-point step by a zero-filling shift and an add, so their last lane is b[3] + (+0.0); the portable forwardDCT8 stores its last output as a sum with the constant +0 as well (otherwise -0 survives in Go and not in the vector kernel). COLPASS: the portable 2-D kernels gather col[j] = input[N*j + i], j = 0..N-1, and hand the buffer whole to the 1-D kernel for each i = 0..K-1. ALIGN: none of the three vector DCT kernels contains an alignment-requiring memory access (MOVAPS, MOVDQA, MOVNT* with a memory operand): their argument is any []float32.")
	r.Trusted("the Go assembler's decimal → float32 conversion rounds to nearest", "x86 vector instruction access widths as tabulated", "go vet asmdecl for the argument offsets (cross-reference)")
	af, err := parseAsm(asmPath(p))
	if err != nil {
		r.Fatal("cannot read the assembly file: " + err.Error())
		return
	}
	for _, e := range af.errs {
		r.Undecided("ASMMEM", "asm_x86.s | parse", "-", e)
	}
	r.Extra("asm_text_blocks", len(af.texts))
	r.Extra("asm_data_words", len(af.data))
	ruleCOS(p, r, af)
	ruleAsmMemDCT(p, r, af)
	ruleCallerLen(p, r)
	ruleSelect(p, r)
	for _, sp := range []struct {
		name string
		K, N int64
	}{{"DCT2DHash64", 8, 64}, {"DCT2DHash256", 16, 256}} {
		key := "imagehash/transforms32." + sp.name + " | flatten"
		if f := p.Func("imagehash/transforms32", "", sp.name); f == nil {
			r.Undecided("FLAT", key, "-", "unresolved anchor")
		} else {
			checkFlattener(p, r, "FLAT", f, key, sp.K, sp.N)
			checkRowPass(p, r, "ROWPASS", f, "imagehash/transforms32."+sp.name+" | row pass", sp.N)
			checkColPass(p, r, "COLPASS", f, "imagehash/transforms32."+sp.name+" | column pass", sp.K, sp.N)
		}
	}
	// the float64 kernels (no vector counterpart) are held to the same two clauses: they must agree with DCT-II
	for _, sp := range []struct {
		name string
		K, N int64
	}{{"DCT2DHash64", 8, 64}, {"DCT2DHash256", 16, 256}} {
		if f := p.Func("imagehash/transforms", "", sp.name); f == nil {
			r.Undecided("ROWPASS", "imagehash/transforms."+sp.name+" | row pass", "-", "unresolved anchor")
		} else {
			checkRowPass(p, r, "ROWPASS", f, "imagehash/transforms."+sp.name+" | row pass", sp.N)
			checkColPass(p, r, "COLPASS", f, "imagehash/transforms."+sp.name+" | column pass", sp.K, sp.N)
		}
	}
	r.Floor("FLAT", 3)
	r.Floor("ROWPASS", 4)
	r.Floor("COLPASS", 4)
	ruleVecSafe(p, r)
	r.Floor("VECSAFE", 20)
	ruleKernelLocal(p, r)
	ruleOblivious(p, r)
	ruleLastLane(p, r, af)
	ruleAsmAlign(r, af)
	r.Floor("ALIGN", 3)
	r.Floor("LASTLANE", 4)
	r.Floor("OBLIV", 10)
	r.Floor("REENT", 10)
	r.Floor("KBND", 10)
	r.Floor("COS", 10)
	r.Floor("ASMMEM", 3)
	r.Floor("FPMODE", 3)
	r.Floor("CALLERLEN", 3)
	r.Floor("SELECT", 3)
}

// ---- COS -------------------------------------------------------------------------------------------

func cosEntry(n, i int) float64 { return 2 * math.Cos((float64(i)+0.5)*math.Pi/float64(n)) }

var reDctName = regexp.MustCompile(`^dct(\d+?)(32)?$`)

type goTable struct {
	rel, name string
	n         int
	f32       bool
	vals      []float64
	pos       token.Pos
}

func goCosTables(p *Prog) []goTable {
	var out []goTable
	for _, rel := range []string{"imagehash/transforms", "imagehash/transforms32"} {
		pk := p.LibPkg(rel)
		if pk == nil {
			continue
		}
		for _, f := range pk.Syntax {
			for _, d := range f.Decls {
				gd, ok := d.(*ast.GenDecl)
				if !ok || gd.Tok != token.VAR {
					continue
				}
				for _, sp := range gd.Specs {
					vs := sp.(*ast.ValueSpec)
					for i, nm := range vs.Names {
						if i >= len(vs.Values) {
							continue
						}
						obj, _ := pk.TypesInfo.Defs[nm].(*types.Var)
						if obj == nil {
							continue
						}
						at, ok := obj.Type().Underlying().(*types.Array)
						if !ok {
							continue
						}
						bt, ok := at.Elem().Underlying().(*types.Basic)
						if !ok || bt.Info()&types.IsFloat == 0 {
							continue
						}
						// N from the name: dct256, dct128, dct6432 (N=64, float32), dct3232, dct1632
						name := nm.Name
						if !strings.HasPrefix(name, "dct") {
							continue
						}
						digits := strings.TrimPrefix(name, "dct")
						n := 0
						f32 := bt.Kind() == types.Float32
						if f32 && strings.HasSuffix(digits, "32") && len(digits) > 2 {
							n, _ = strconv.Atoi(strings.TrimSuffix(digits, "32"))
						} else {
							n, _ = strconv.Atoi(digits)
						}
						if n == 0 || int(at.Len()) != n/2 {
							// length decides when the name is ambiguous
							n = 2 * int(at.Len())
						}
						cl, ok := vs.Values[i].(*ast.CompositeLit)
						if !ok {
							continue
						}
						var vals []float64
						for _, el := range cl.Elts {
							bl, ok := el.(*ast.BasicLit)
							if !ok {
								vals = nil
								break
							}
							v, err := strconv.ParseFloat(bl.Value, 64)
							if err != nil {
								vals = nil
								break
							}
							vals = append(vals, v)
						}
						if vals != nil {
							out = append(out, goTable{rel, name, n, f32, vals, nm.Pos()})
						}
					}
				}
			}
		}
	}
	return out
}

func ruleCOS(p *Prog, r *Report, af *asmFile) {
	gts := goCosTables(p)
	byN32 := map[int][]float32{}
	for _, g := range gts {
		key := fmt.Sprintf("%s.%s | 2·cos((i+½)π/%d)", g.rel, g.name, g.n)
		at := p.posStr(g.pos)
		if len(g.vals) != g.n/2 {
			r.Bad("COS", key, at, fmt.Sprintf("table has %d entries, want %d", len(g.vals), g.n/2))
			continue
		}
		bad := ""
		for i, v := range g.vals {
			want := cosEntry(g.n, i)
			if g.f32 {
				if math.Float32bits(float32(v)) != math.Float32bits(float32(want)) {
					bad = fmt.Sprintf("entry %d is %v (float32 %v), the formula gives %v", i, v, float32(v), float32(want))
					break
				}
			} else if math.Abs(v-want) > math.Abs(want)*2.3e-16+1e-300 {
				bad = fmt.Sprintf("entry %d is %v, the formula gives %v", i, v, want)
				break
			}
		}
		if bad != "" {
			r.Bad("COS", key, at, "divisor table disagrees with the DCT-II cosine: "+bad+" — the kernels using it no longer compute the transform (and differ from the other implementation)")
		} else {
			r.OK("COS", key, at, fmt.Sprintf("%d entries match the formula", len(g.vals)))
		}
		f := make([]float32, len(g.vals))
		for i, v := range g.vals {
			f[i] = float32(v)
		}
		if _, dup := byN32[g.n]; !dup || g.rel == "imagehash/transforms32" {
			byN32[g.n] = f
		}
	}
	// assembly DATA tables
	bySym := map[string][]asmData{}
	for _, d := range af.data {
		if strings.HasPrefix(d.sym, "dct") {
			bySym[d.sym] = append(bySym[d.sym], d)
		}
	}
	var syms []string
	for s := range bySym {
		syms = append(syms, s)
	}
	sort.Strings(syms)
	for _, s := range syms {
		n, _ := strconv.Atoi(strings.TrimPrefix(s, "dct"))
		key := fmt.Sprintf("asm_x86.s %s<> | 2·cos((i+½)π/%d)", s, n)
		ds := bySym[s]
		sort.Slice(ds, func(i, j int) bool { return ds[i].off < ds[j].off })
		var vals []float32
		bad := ""
		for i, d := range ds {
			if d.off != int64(4*i) || d.size != 4 {
				bad = fmt.Sprintf("entry at offset %d is not a 4-byte word in sequence", d.off)
				break
			}
			txt := strings.TrimSuffix(strings.TrimPrefix(d.val, "("), ")")
			v, err := strconv.ParseFloat(txt, 64)
			if err != nil {
				bad = "value " + d.val + " is not a decimal"
				break
			}
			vals = append(vals, float32(v))
		}
		if bad == "" && af.globl[s] != int64(4*len(vals)) {
			bad = fmt.Sprintf("GLOBL size %d does not match %d words", af.globl[s], len(vals))
		}
		if bad == "" {
			// expected layout: N/2 entries; tables narrower than 4 lanes are padded by repeating each entry
			half := n / 2
			rep := 1
			if half < 4 {
				rep = 4 / half
			}
			if len(vals) != half*rep {
				bad = fmt.Sprintf("%d words, want %d", len(vals), half*rep)
			}
			for i := 0; bad == "" && i < len(vals); i++ {
				want := float32(cosEntry(n, i/rep))
				if math.Float32bits(vals[i]) != math.Float32bits(want) {
					bad = fmt.Sprintf("word %d is %v, the formula gives %v", i, vals[i], want)
				}
			}
			if gt, ok := byN32[n]; ok && bad == "" && rep == 1 {
				for i := range vals {
					if i < len(gt) && math.Float32bits(vals[i]) != math.Float32bits(gt[i]) {
						bad = fmt.Sprintf("word %d is %v but the Go table of the same size has %v: the two kernels divide by different constants", i, vals[i], gt[i])
						break
					}
				}
			}
		}
		if bad != "" {
			r.Bad("COS", key, "imagehash/transforms32/asm_x86.s", "assembly divisor table: "+bad)
		} else {
			r.OK("COS", key, "imagehash/transforms32/asm_x86.s", fmt.Sprintf("%d words bit-equal to float32 of the formula (and to the Go table where one exists)", len(vals)))
		}
	}
}

// ---- ASMMEM ----------------------------------------------------------------------------------------

func ruleAsmMemDCT(p *Prog, r *Report, af *asmFile) {
	want := map[string]int64{"asmForwardDCT64": 4 * 64, "asmForwardDCT256": 4 * 256, "asmDCT2DHash64": 4 * 64 * 64}
	found := map[string]bool{}
	for _, t := range af.texts {
		n, ok := want[t.name]
		if !ok {
			continue
		}
		found[t.name] = true
		res := asmMemCheck(af, t, map[string]int64{"input": n})
		key := fmt.Sprintf("asm_x86.s %s | memory operands within input[0:%d], the frame and the data symbols", t.name, n/4)
		at := fmt.Sprintf("imagehash/transforms32/asm_x86.s:%d", t.line)
		r.Extra("asmmem_"+t.name, map[string]any{"operands": res.operands, "by_base": res.byBase, "counted_loops": res.counters})
		// floating-point control state
		var mem []asmFinding
		fp := ""
		for _, f := range res.findings {
			if strings.HasPrefix(f.msg, "the kernel changes the floating-point") {
				if fp == "" {
					fp = fmt.Sprintf("%s — `%s` (line %d)", f.msg, f.text, f.line)
				}
			} else {
				mem = append(mem, f)
			}
		}
		res.findings = mem
		fkey := fmt.Sprintf("asm_x86.s %s | floating-point control state untouched", t.name)
		if fp != "" {
			r.Bad("FPMODE", fkey, at, fp)
		} else {
			r.OK("FPMODE", fkey, at, "no MXCSR/x87 control instruction")
		}
		switch {
		case len(res.findings) > 0:
			f := res.findings[0]
			r.Bad("ASMMEM", key, fmt.Sprintf("imagehash/transforms32/asm_x86.s:%d", f.line), fmt.Sprintf("%s — `%s` (%d such operands)", f.msg, f.text, len(res.findings)))
		case len(res.undecided) > 0:
			f := res.undecided[0]
			r.Undecided("ASMMEM", key, fmt.Sprintf("imagehash/transforms32/asm_x86.s:%d", f.line), fmt.Sprintf("%s — `%s` (%d undecided)", f.msg, f.text, len(res.undecided)))
		case res.operands < 20:
			r.Undecided("ASMMEM", key, at, fmt.Sprintf("only %d memory operands found", res.operands))
		default:
			r.OK("ASMMEM", key, at, fmt.Sprintf("%d memory operands checked (%v)", res.operands, res.byBase))
		}
	}
	// FLAT (assembly side): the 2-D kernel stores the 8x8 block row-major — ret[8*m + i], i the column counter in
	// [0,8), every m in [0,8) once per column — the layout the portable branch is held to by the Go-side FLAT.
	for _, t := range af.texts {
		if t.name != "asmDCT2DHash64" {
			continue
		}
		res := asmMemCheck(af, t, map[string]int64{"input": want[t.name]})
		key := "asm_x86.s asmDCT2DHash64 | result stored as ret[8*m + column]"
		at := fmt.Sprintf("imagehash/transforms32/asm_x86.s:%d", t.line)
		const retOff, K = 24, 8 // the result follows the 24-byte slice header of the argument
		seen := map[int64]int{}
		idx := ""
		bad := ""
		nst := 0
		for _, in := range t.instrs {
			d := dstOperand(in)
			if d == nil || d.kind != "mem" || d.base != "FP" || d.disp < retOff {
				continue
			}
			nst++
			if d.index == "" || d.scale != 4 {
				bad = fmt.Sprintf("result store `%s` (line %d) is not indexed by a column counter scaled by 4", in.text, in.line)
				continue
			}
			if idx != "" && idx != d.index {
				bad = fmt.Sprintf("result stores use different index registers (%s, %s)", idx, d.index)
			}
			idx = d.index
			if (d.disp-retOff)%(4*K) != 0 {
				bad = fmt.Sprintf("result store `%s` (line %d) is at byte %d of the result, not at the start of a row of %d floats", in.text, in.line, d.disp-retOff, K)
				continue
			}
			seen[(d.disp-retOff)/(4*K)]++
		}
		if bad == "" {
			for m := int64(0); m < K; m++ {
				if seen[m] != 1 {
					bad = fmt.Sprintf("row %d of the result is stored %d times per column (want once)", m, seen[m])
				}
			}
			if len(seen) != K {
				bad = fmt.Sprintf("%d distinct result rows are stored, want %d", len(seen), K)
			}
			if want := fmt.Sprintf("0 ≤ %s < %d step 1", idx, K); res.counters[idx] != want {
				bad = fmt.Sprintf("the index register %s of the result stores is not a counted loop variable over [0,%d): %q", idx, K, res.counters[idx])
			}
		}
		switch {
		case nst == 0:
			r.Undecided("FLAT", key, at, "no store into the result area found")
		case bad != "":
			r.Bad("FLAT", key, at, bad)
		default:
			r.OK("FLAT", key, at, fmt.Sprintf("%d stores per column at ret[8*m + %s], m = 0..7 once each, %s", nst, idx, res.counters[idx]))
		}
	}
	for name := range want {
		if !found[name] {
			r.Undecided("ASMMEM", "asm_x86.s "+name, "-", "TEXT block not found")
		}
	}
}

// ---- CALLERLEN -------------------------------------------------------------------------------------

// ruleCallerLen: every call site in the library whose callees include an assembly kernel taking `input []float32`
// passes a slice of at least N elements.
func ruleCallerLen(p *Prog, r *Report) {
	need := map[string]int64{"asmForwardDCT64": 64, "asmForwardDCT256": 256, "asmDCT2DHash64": 4096}
	e := p.E3()
	n := 0
	for _, f := range p.AllLibFns() {
		eachCall(f, func(site ssa.CallInstruction) {
			for _, g := range p.Callees(site) {
				nd, ok := need[g.Name()]
				if !ok || g.Blocks != nil || !isRepoFn(g) {
					continue
				}
				n++
				args := callArgs(site.Common())
				key := fmt.Sprintf("%s | call reaching %s with %s", fnName(f), g.Name(), shortVal(args[0]))
				at := p.posStr(instrPos(site))
				lt := termT{v: e.lenBase(args[0]), len: true}
				k := termT{v: ssa.NewConst(constantInt(nd), types.Typ[types.Int])}
				if e.ProveLE(site.Block(), k, lt, 0) {
					r.OK("CALLERLEN", key, at, fmt.Sprintf("len ≥ %d proved at the call", nd))
				} else {
					r.Bad("CALLERLEN", key, at, fmt.Sprintf("the assembly kernel reads and writes %d elements but the slice passed here is not proved that long", nd))
				}
			}
		})
	}
	r.Extra("callerlen_sites", n)
}

// ---- SELECT ----------------------------------------------------------------------------------------

func ruleSelect(p *Prog, r *Report) {
	sp := p.SSAPkg("imagehash/transforms32")
	if sp == nil {
		r.Undecided("SELECT", "imagehash/transforms32", "-", "package not found")
		return
	}
	vars := []string{"FlagUseASM", "ForwardDCT64", "ForwardDCT256", "YCbCrToGray"}
	gl := map[string]*ssa.Global{}
	for _, v := range vars {
		g, _ := sp.Members[v].(*ssa.Global)
		if g == nil {
			r.Undecided("SELECT", "imagehash/transforms32."+v, "-", "variable not found")
			return
		}
		gl[v] = g
	}
	// writers
	type wsite struct {
		f  *ssa.Function
		b  *ssa.BasicBlock
		st *ssa.Store
	}
	writes := map[string][]wsite{}
	for _, f := range p.AllLibFns() {
		eachInstr(f, func(b *ssa.BasicBlock, _ int, in ssa.Instruction) {
			if st, ok := in.(*ssa.Store); ok {
				if g, ok := st.Addr.(*ssa.Global); ok {
					for _, v := range vars {
						if gl[v] == g {
							writes[v] = append(writes[v], wsite{f, b, st})
						}
					}
				}
			}
		})
	}
	for _, v := range vars {
		key := "imagehash/transforms32." + v + " | written only by initialiser/init"
		bad := ""
		for _, w := range writes[v] {
			if !isInitFn(w.f) {
				bad = "written by " + fnName(w.f) + " at " + p.posStr(instrPos(w.st))
			}
		}
		if bad != "" {
			r.Bad("SELECT", key, "-", "the kernel selection can change after start-up ("+bad+"): two hashes of one process may come from different kernels")
		} else {
			r.OK("SELECT", key, "-", fmt.Sprintf("%d writes, all in package initialisation", len(writes[v])))
		}
	}
	// the three function variables switch together under FlagUseASM
	key := "imagehash/transforms32 | kernels switched together under FlagUseASM"
	type blk = *ssa.BasicBlock
	asmBlocks := map[string]blk{}
	for _, v := range vars[1:] {
		for _, w := range writes[v] {
			if w.f.Name() == "init" && w.f.Synthetic == "package initializer" {
				continue // the static initialiser (portable kernel)
			}
			guarded := false
			for _, cd := range condsAt(w.b) {
				if cd.True && loadOfGlobal(cd.V) == gl["FlagUseASM"] {
					guarded = true
				}
			}
			if !guarded {
				r.Bad("SELECT", key, p.posStr(instrPos(w.st)), v+" is re-assigned outside the FlagUseASM branch")
				return
			}
			asmBlocks[v] = w.b
		}
	}
	same := len(asmBlocks) == 3
	var first blk
	for _, b := range asmBlocks {
		if first == nil {
			first = b
		} else if b != first {
			same = false
		}
	}
	if !same && len(asmBlocks) > 0 {
		r.Bad("SELECT", key, "-", fmt.Sprintf("only %d of the 3 kernel variables are switched in the FlagUseASM branch (or in different branches): a machine mixes assembly and portable kernels", len(asmBlocks)))
	} else {
		r.OK("SELECT", key, "-", "ForwardDCT64, ForwardDCT256 and YCbCrToGray are assigned in one block under FlagUseASM (or not at all)")
	}
	// DCT2DHash64 takes the assembly 2-D kernel under the same flag
	f := p.Func("imagehash/transforms32", "", "DCT2DHash64")
	key = "imagehash/transforms32.DCT2DHash64 | asmDCT2DHash64 only under FlagUseASM"
	if f == nil {
		r.Undecided("SELECT", key, "-", "anchor not resolved")
		return
	}
	ok, any := true, false
	eachCall(f, func(site ssa.CallInstruction) {
		sc := site.Common().StaticCallee()
		if sc == nil || sc.Name() != "asmDCT2DHash64" {
			return
		}
		any = true
		guarded := false
		for _, cd := range condsAt(site.Block()) {
			if cd.True && loadOfGlobal(cd.V) == gl["FlagUseASM"] {
				guarded = true
			}
		}
		if !guarded {
			ok = false
		}
	})
	switch {
	case !any:
		r.OK("SELECT", key, p.posStr(f.Pos()), "the assembly 2-D kernel is not used")
	case ok:
		r.OK("SELECT", key, p.posStr(f.Pos()), "guarded by FlagUseASM")
	default:
		r.Bad("SELECT", key, p.posStr(f.Pos()), "the assembly 2-D kernel is called without testing FlagUseASM: it runs on machines without AVX2 or mixes with portable 1-D kernels")
	}
}
