package main

// E3c — upper bounds of integer struct fields as object invariants.
//
// A counter such as exif2.buffer.len is only ever set to a constant, decreased, or increased by a constant under
// a guard `field < K`; then field ≤ max(constants, K − 1 + step) holds whenever the field is read, provided its
// address never escapes and the struct is never overwritten as a whole. The invariant is re-derived from every
// store in the library on every run; one store of another shape and there is no invariant.

import (
	"fmt"
	"go/token"
	"go/types"

	"golang.org/x/tools/go/ssa"
)

type fieldKey struct {
	n     *types.Named
	field int
}

type fieldInv struct {
	hi    int64
	ok    bool
	why   string
	state int // 1 = in progress
}

func (e *E3) fieldUpper(n *types.Named, field int) (int64, bool) {
	if e.finv == nil {
		e.finv = map[fieldKey]*fieldInv{}
	}
	k := fieldKey{n, field}
	if fi, ok := e.finv[k]; ok {
		if fi.state == 1 {
			return 0, false
		}
		return fi.hi, fi.ok
	}
	fi := &fieldInv{state: 1}
	e.finv[k] = fi
	hi, ok, why := e.deriveFieldUpper(n, field)
	fi.hi, fi.ok, fi.why, fi.state = hi, ok, why, 0
	// ranges computed while the derivation was in progress did not see the invariant: forget them
	if ok {
		e.rngMemo = map[ssa.Value]ival{}
	}
	return hi, ok
}

func (e *E3) deriveFieldUpper(n *types.Named, field int) (int64, bool, string) {
	st, ok := n.Underlying().(*types.Struct)
	if !ok || field >= st.NumFields() || !isIntType(st.Field(field).Type()) {
		return 0, false, "not an integer field"
	}
	if !isRepoPath(pkgPathOf(n)) {
		return 0, false, "not a library type"
	}
	best := int64(0) // zero value
	why := ""
	nStores := 0
	for _, f := range e.p.AllLibFns() {
		if why != "" {
			break
		}
		eachInstr(f, func(b *ssa.BasicBlock, _ int, in ssa.Instruction) {
			if why != "" {
				return
			}
			// whole-struct stores overwrite the field
			if s, ok := in.(*ssa.Store); ok {
				if vn, ok := s.Val.Type().(*types.Named); ok && vn == n {
					if _, isAlloc := s.Addr.(*ssa.Alloc); !isAlloc {
						why = "the struct is overwritten as a whole in " + fnName(f)
					}
				}
			}
			fa, ok := in.(*ssa.FieldAddr)
			if !ok || fa.Field != field || namedOfPtr(fa.X.Type()) != n {
				return
			}
			for _, rf := range refs(fa) {
				switch u := rf.(type) {
				case *ssa.UnOp:
					if u.Op != token.MUL {
						why = "address of the field is used in " + fnName(f)
					}
				case *ssa.DebugRef:
				case *ssa.Store:
					if u.Addr != ssa.Value(fa) {
						why = "address of the field is stored in " + fnName(f)
						return
					}
					nStores++
					v := stripIntConv(u.Val)
					if c, ok := constInt(v); ok {
						if c > best {
							best = c
						}
						continue
					}
					bo, ok := v.(*ssa.BinOp)
					if !ok {
						why = fmt.Sprintf("store of %s in %s", shortVal(v), fnName(f))
						return
					}
					ld, isLd := stripIntConv(bo.X).(*ssa.UnOp)
					sameField := false
					if isLd && ld.Op == token.MUL {
						if fa2, ok := ld.X.(*ssa.FieldAddr); ok && fa2.Field == field && namedOfPtr(fa2.X.Type()) == n && sameAddrStrict(fa2.X, fa.X) {
							sameField = true
						}
					}
					if !sameField {
						why = fmt.Sprintf("store of %s in %s", shortVal(v), fnName(f))
						return
					}
					switch bo.Op {
					case token.SUB:
						// old − w with w ≤ old (no wrap): non-increasing
						if !e.ProveLE(b, e.termOf(bo.Y), e.termOf(ld), 0) {
							why = fmt.Sprintf("decrement in %s may wrap around (cannot show %s ≤ the field)", fnName(f), shortVal(bo.Y))
						}
					case token.ADD:
						d, ok := constInt(bo.Y)
						if !ok || d < 0 {
							why = "increment by a non-constant in " + fnName(f)
							return
						}
						// the guard: old < K or old ≤ K on a dominating edge
						kb, found := int64(0), false
						for _, cd := range condsAt(b) {
							cb, ok := cd.V.(*ssa.BinOp)
							if !ok {
								continue
							}
							l, isL := stripIntConv(cb.X).(*ssa.UnOp)
							kc, isK := constInt(cb.Y)
							if !isL || !isK || l.Op != token.MUL {
								continue
							}
							fa3, ok := l.X.(*ssa.FieldAddr)
							if !ok || fa3.Field != field || namedOfPtr(fa3.X.Type()) != n || !sameAddrStrict(fa3.X, fa.X) {
								continue
							}
							if e.clobberedBetween(l, ld) && l != ld {
								continue
							}
							op := cb.Op
							if !cd.True {
								switch op {
								case token.GEQ:
									op = token.LSS
								case token.GTR:
									op = token.LEQ
								default:
									continue
								}
							}
							var ub int64
							switch op {
							case token.LSS:
								ub = kc - 1
							case token.LEQ:
								ub = kc
							default:
								continue
							}
							if !found || ub < kb {
								kb, found = ub, true
							}
						}
						if !found {
							why = "increment without a dominating upper guard on the field in " + fnName(f)
							return
						}
						if kb+d > best {
							best = kb + d
						}
					default:
						why = fmt.Sprintf("store of %s in %s", shortVal(v), fnName(f))
					}
				default:
					why = fmt.Sprintf("address of the field escapes (%T) in %s", rf, fnName(f))
				}
			}
		})
	}
	if why != "" {
		return 0, false, why
	}
	if nStores == 0 {
		return 0, false, "no store found"
	}
	return best, true, ""
}

// fieldLoadUpper: v is a load of an integer field with a derived invariant.
func (e *E3) fieldLoadUpper(v *ssa.UnOp) (int64, bool) {
	fa, ok := v.X.(*ssa.FieldAddr)
	if !ok {
		return 0, false
	}
	n := namedOfPtr(fa.X.Type())
	if n == nil {
		return 0, false
	}
	return e.fieldUpper(n, fa.Field)
}
