package main

// E3 extension: facts implied by the result of a pure boolean repo function used as a branch condition
// (e.g. `if t.IsEmbedded()` ⇒ t.Size() ≤ 4), translated to the caller's values.

import (
	"fmt"
	"go/token"
	"go/types"
	"strings"

	"golang.org/x/tools/go/ssa"
)

// argPure: f's result depends only on its (non-pointer) arguments and immutable package-level tables,
// and f has no effects.
func (e *E3) argPure(f *ssa.Function) bool {
	if e.pureMemo == nil {
		e.pureMemo = map[*ssa.Function]int{}
	}
	switch e.pureMemo[f] {
	case 1:
		return true
	case 2:
		return false
	case 3:
		return true // recursion: optimistic, checked by the outer call
	}
	if f.Blocks == nil || !isRepoFn(f) {
		e.pureMemo[f] = 2
		return false
	}
	e.pureMemo[f] = 3
	ok := true
	for _, prm := range f.Params {
		if pointerLike(prm.Type()) {
			if _, isStr := prm.Type().Underlying().(*types.Basic); !isStr {
				ok = false
			}
		}
	}
	eachInstr(f, func(_ *ssa.BasicBlock, _ int, in ssa.Instruction) {
		if !ok {
			return
		}
		switch x := in.(type) {
		case *ssa.Store, *ssa.MapUpdate, *ssa.Send, *ssa.Go, *ssa.Defer, *ssa.Panic:
			ok = false
		case *ssa.UnOp:
			if x.Op == token.MUL {
				g := globalOf(x.X)
				if g == nil {
					// loads from a spilled value receiver (Alloc) are fine
					if !nonEscapingRoot(x.X) {
						ok = false
					}
					return
				}
				if _, imm := e.tables.ElemRange(g); !imm {
					if _, imm2 := e.tables.Len(g); !imm2 {
						ok = false
					}
				}
			}
		case ssa.CallInstruction:
			c := x.Common()
			if b, isB := c.Value.(*ssa.Builtin); isB {
				if b.Name() != "len" && b.Name() != "cap" {
					ok = false
				}
				return
			}
			sc := c.StaticCallee()
			if sc == nil || !e.argPure(sc) {
				ok = false
			}
		}
	})
	// the stores that spill a value receiver into an Alloc are allowed: re-scan treating them as fine
	if !ok {
		ok2 := true
		for _, prm := range f.Params {
			if pointerLike(prm.Type()) {
				if _, isStr := prm.Type().Underlying().(*types.Basic); !isStr {
					ok2 = false
				}
			}
		}
		eachInstr(f, func(_ *ssa.BasicBlock, _ int, in ssa.Instruction) {
			if !ok2 {
				return
			}
			switch x := in.(type) {
			case *ssa.Store:
				if a, isA := x.Addr.(*ssa.Alloc); !isA || !nonEscapingRoot(a) {
					ok2 = false
				}
			case *ssa.MapUpdate, *ssa.Send, *ssa.Go, *ssa.Defer, *ssa.Panic:
				ok2 = false
			case *ssa.UnOp:
				if x.Op == token.MUL {
					g := globalOf(x.X)
					if g == nil {
						if !nonEscapingRoot(x.X) {
							ok2 = false
						}
						return
					}
					if _, imm := e.tables.ElemRange(g); !imm {
						if _, imm2 := e.tables.Len(g); !imm2 {
							ok2 = false
						}
					}
				}
			case ssa.CallInstruction:
				c := x.Common()
				if b, isB := c.Value.(*ssa.Builtin); isB {
					if b.Name() != "len" && b.Name() != "cap" {
						ok2 = false
					}
					return
				}
				sc := c.StaticCallee()
				if sc == nil || !e.argPure(sc) {
					ok2 = false
				}
			}
		})
		ok = ok2
	}
	if ok {
		e.pureMemo[f] = 1
	} else {
		e.pureMemo[f] = 2
	}
	return ok
}

// impliedConds: branch conditions (callee-side values) that necessarily hold when bool function f returns `truth`.
func (e *E3) impliedConds(f *ssa.Function, truth bool) []Cond {
	var rets []*ssa.Return
	eachInstr(f, func(_ *ssa.BasicBlock, _ int, in ssa.Instruction) {
		if r, ok := in.(*ssa.Return); ok {
			rets = append(rets, r)
		}
	})
	if len(rets) != 1 || len(rets[0].Results) != 1 {
		return nil
	}
	ret := rets[0]
	v := ret.Results[0]
	switch x := v.(type) {
	case *ssa.BinOp:
		return append(condsAt(ret.Block()), Cond{V: x, True: truth})
	case *ssa.Phi:
		if x.Block() != ret.Block() {
			return nil
		}
		live := -1
		for i, ed := range x.Edges {
			if c, ok := ed.(*ssa.Const); ok && c.Value != nil {
				if bv, isBool := boolConst(c); isBool && bv != truth {
					continue // this edge yields the other result
				}
			}
			if live >= 0 {
				return nil // several ways to produce `truth`
			}
			live = i
		}
		if live < 0 {
			return nil
		}
		pred := ret.Block().Preds[live]
		cs := edgeConds(pred, ret.Block())
		if bo, ok := x.Edges[live].(*ssa.BinOp); ok {
			cs = append(cs, Cond{V: bo, True: truth})
		}
		return cs
	}
	return nil
}

func boolConst(c *ssa.Const) (bool, bool) {
	if c.Value == nil {
		return false, false
	}
	s := c.Value.ExactString()
	if s == "true" {
		return true, true
	}
	if s == "false" {
		return false, true
	}
	return false, false
}

// pureCallIndex: per caller, calls to arg-pure functions keyed by callee + argument value numbers.
func (e *E3) pureCallKey(callee *ssa.Function, args []ssa.Value) string {
	var parts []string
	for _, a := range args {
		parts = append(parts, e.vnKey(e.canonAny(a)))
	}
	return fmt.Sprintf("%p(%s)", callee, strings.Join(parts, ","))
}

// canonAny canonicalises any value (ints via canon; loads via loadRep).
func (e *E3) canonAny(v ssa.Value) ssa.Value {
	if isIntType(v.Type()) {
		return e.canon(v)
	}
	if u, ok := v.(*ssa.UnOp); ok && u.Op == token.MUL && globalOf(u.X) == nil {
		return e.loadRepAny(u)
	}
	return v
}

// loadRepAny: like loadRep but for loads of any type (struct values such as Tag).
func (e *E3) loadRepAny(ld *ssa.UnOp) ssa.Value {
	if e.loadMemoAny == nil {
		e.loadMemoAny = map[*ssa.UnOp]ssa.Value{}
	}
	if r, ok := e.loadMemoAny[ld]; ok {
		return r
	}
	e.loadMemoAny[ld] = ld
	f := ld.Parent()
	var best *ssa.UnOp
	for _, b := range f.Blocks {
		for _, in := range b.Instrs {
			o, ok := in.(*ssa.UnOp)
			if !ok || o == ld || o.Op != token.MUL || !sameAddrStrict(o.X, ld.X) {
				continue
			}
			if !instrDominates(o, ld) || e.clobberedBetween(o, ld) {
				continue
			}
			if best == nil || instrDominates(o, best) {
				best = o
			}
		}
	}
	if best != nil {
		r := e.loadRepAny(best)
		e.loadMemoAny[ld] = r
		return r
	}
	return ld
}

func (e *E3) pureCallsOf(f *ssa.Function) map[string]ssa.Value {
	if e.pureCalls == nil {
		e.pureCalls = map[*ssa.Function]map[string]ssa.Value{}
	}
	if m, ok := e.pureCalls[f]; ok {
		return m
	}
	m := map[string]ssa.Value{}
	e.pureCalls[f] = m
	eachInstr(f, func(_ *ssa.BasicBlock, _ int, in ssa.Instruction) {
		c, ok := in.(*ssa.Call)
		if !ok {
			return
		}
		sc := c.Call.StaticCallee()
		if sc == nil || !isRepoFn(sc) || !e.argPure(sc) {
			return
		}
		k := e.pureCallKey(sc, c.Call.Args)
		if _, seen := m[k]; !seen {
			m[k] = c
		}
	})
	return m
}

// translate maps a callee-side value to the caller's value, given the call.
func (e *E3) translate(v ssa.Value, callee *ssa.Function, call *ssa.Call, depth int) ssa.Value {
	if depth > 6 {
		return nil
	}
	switch x := v.(type) {
	case *ssa.Const:
		return x
	case *ssa.Parameter:
		for i, prm := range callee.Params {
			if prm == x && i < len(call.Call.Args) {
				return call.Call.Args[i]
			}
		}
		return nil
	case *ssa.Convert:
		if isIntType(x.Type()) && isIntType(x.X.Type()) && typeRange(x.X.Type()).within(typeRange(x.Type())) {
			return e.translate(x.X, callee, call, depth+1)
		}
		return nil
	case *ssa.ChangeType:
		return e.translate(x.X, callee, call, depth+1)
	case *ssa.UnOp:
		// load of a spilled value parameter: *alloc where alloc was stored the parameter
		if x.Op == token.MUL {
			if a, ok := x.X.(*ssa.Alloc); ok {
				for _, rf := range refs(a) {
					if st, ok := rf.(*ssa.Store); ok && st.Addr == ssa.Value(a) {
						return e.translate(st.Val, callee, call, depth+1)
					}
				}
			}
		}
		return nil
	case *ssa.Call:
		sc := x.Call.StaticCallee()
		if sc == nil || !e.argPure(sc) {
			return nil
		}
		var targs []ssa.Value
		for _, a := range x.Call.Args {
			ta := e.translate(a, callee, call, depth+1)
			if ta == nil {
				return nil
			}
			targs = append(targs, ta)
		}
		if r, ok := e.pureCallsOf(call.Parent())[e.pureCallKey(sc, targs)]; ok {
			return r
		}
		return nil
	}
	return nil
}

// expandCallConds turns `call G(args) == truth` branch conditions into translated integer comparisons.
func (e *E3) expandCallConds(conds []Cond) []Cond {
	var out []Cond
	for _, cd := range conds {
		call, ok := cd.V.(*ssa.Call)
		if !ok {
			continue
		}
		sc := call.Call.StaticCallee()
		if sc == nil || !isRepoFn(sc) || sc.Blocks == nil || !isBoolType(call.Type()) || !e.argPure(sc) {
			continue
		}
		for _, ic := range e.impliedConds(sc, cd.True) {
			bo, ok := ic.V.(*ssa.BinOp)
			if !ok || !isIntType(bo.X.Type()) {
				continue
			}
			tx := e.translate(bo.X, sc, call, 0)
			ty := e.translate(bo.Y, sc, call, 0)
			if tx == nil || ty == nil {
				continue
			}
			out = append(out, Cond{V: &ssa.BinOp{Op: bo.Op, X: tx, Y: ty}, True: ic.True})
		}
	}
	return out
}
