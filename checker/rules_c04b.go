package main

// C04: STALE (reads of recycled memory are bounded by what this call wrote) and ESC (no recycled memory in results).

import (
	"fmt"
	"go/token"
	"go/types"
	"sort"
	"strings"

	"golang.org/x/tools/go/ssa"
)

// pooledStructs: named struct types that are the element type of a package-level sync.Pool
// (the asserted type of its Get), e.g. exif2.buffer.
func pooledStructs(p *Prog) map[*types.Named]bool {
	out := map[*types.Named]bool{}
	for _, gs := range poolSites(p, "Get") {
		v, ok := gs.call.(ssa.Value)
		if !ok {
			continue
		}
		for _, rf := range refs(v) {
			if ta, ok := rf.(*ssa.TypeAssert); ok {
				if pt, ok := ta.AssertedType.(*types.Pointer); ok {
					if n, ok := pt.Elem().(*types.Named); ok && isRepoPath(pkgPathOf(n)) {
						if _, ok := n.Underlying().(*types.Struct); ok {
							out[n] = true
						}
					}
				}
			}
		}
	}
	return out
}

func pkgPathOf(n *types.Named) string {
	if n.Obj().Pkg() == nil {
		return ""
	}
	return n.Obj().Pkg().Path()
}

// arrayFieldOfPooled: addr is &X.f where X is *T, T pooled, f an array field → (X, field index, field name, T)
func arrayFieldOfPooled(pooled map[*types.Named]bool, addr ssa.Value) (ssa.Value, int, string, bool) {
	fa, ok := addr.(*ssa.FieldAddr)
	if !ok {
		return nil, 0, "", false
	}
	pt, ok := fa.X.Type().Underlying().(*types.Pointer)
	if !ok {
		return nil, 0, "", false
	}
	n, ok := pt.Elem().(*types.Named)
	if !ok || !pooled[n] {
		return nil, 0, "", false
	}
	st := n.Underlying().(*types.Struct)
	if _, ok := st.Field(fa.Field).Type().Underlying().(*types.Array); !ok {
		return nil, 0, "", false
	}
	return fa.X, fa.Field, st.Field(fa.Field).Name(), true
}

// ruleStale: (a) every element read of an array field of a pooled struct whose elements are structs (the tag
// array) is at an index proved < the struct's count field as loaded in the same function; (b) every slice of a
// byte-array field of a pooled struct that leaves the function (returned) was filled by io.ReadFull under the
// nil-error edge, i.e. the caller can only see bytes this call wrote.
func ruleStale(p *Prog, r *Report) {
	pooled := pooledStructs(p)
	e := p.E3()
	dec, err := p.DecEntries()
	if err != nil {
		r.Fatal(err.Error())
		return
	}
	for _, f := range p.LibReach(dec) {
		eachInstr(f, func(b *ssa.BasicBlock, _ int, in ssa.Instruction) {
			switch x := in.(type) {
			case *ssa.IndexAddr:
				base, _, fname, ok := arrayFieldOfPooled(pooled, x.X)
				if !ok {
					return
				}
				// only reads: the address is loaded (or its fields are loaded), not stored to
				if !addrIsRead(x) {
					return
				}
				key := fmt.Sprintf("%s | read %s[%s]", fnName(f), fname, shortVal(x.Index))
				at := p.posStr(instrPos(in))
				elem := x.X.Type().Underlying().(*types.Pointer).Elem().Underlying().(*types.Array).Elem()
				if _, isStruct := elem.Underlying().(*types.Struct); !isStruct {
					// byte scratch read in place: must be dominated by a call that filled at least index+1 bytes of
					// a window of the same array starting at 0 (PutUintN through any chain of repo wrappers)
					k, isConst := constInt(x.Index)
					filled := int64(0)
					if isConst {
						eachInstr(f, func(b2 *ssa.BasicBlock, _ int, in2 ssa.Instruction) {
							c, ok := in2.(*ssa.Call)
							if !ok || !(b2.Dominates(b) && (b2 != b || instrIndex(c) < instrIndex(in))) {
								return
							}
							for ai, a := range c.Call.Args {
								sl, ok := a.(*ssa.Slice)
								if !ok || sl.Low != nil {
									continue
								}
								if b3, _, _, ok := arrayFieldOfPooled(pooled, sl.X); !ok || !(b3 == base || sameAddrStrict(b3, base)) {
									continue
								}
								if sc := c.Call.StaticCallee(); sc != nil {
									if n := fillerK(sc, ai, 0); n > filled {
										filled = n
									}
								}
							}
						})
					}
					if isConst && k < filled {
						r.OK("STALE", key, at, fmt.Sprintf("scratch byte %d read after a dominating call wrote the first %d bytes of the window", k, filled))
					} else {
						r.Bad("STALE", key, at, "byte of the recycled scratch array read without a dominating write of that byte in this function")
					}
					return
				}
				if staleBounded(e, f, b, base, x.Index, -1) {
					r.OK("STALE", key, at, "index proved < the count field of the same object (elements this call wrote)")
				} else {
					r.Bad("STALE", key, at, "element of the recycled array read at an index not proved below the count this call wrote: a slot left by an earlier decode can be observed")
				}
			case *ssa.Slice:
				base, _, fname, ok := arrayFieldOfPooled(pooled, x.X)
				if !ok {
					return
				}
				at := p.posStr(instrPos(in))
				elem := x.X.Type().Underlying().(*types.Pointer).Elem().Underlying().(*types.Array).Elem()
				if _, isStruct := elem.Underlying().(*types.Struct); isStruct {
					// slice of the tag array: only as copy source/destination; a source must end ≤ count
					for _, rf := range refs(x) {
						c, ok := rf.(*ssa.Call)
						if !ok {
							continue
						}
						if bi, ok := c.Call.Value.(*ssa.Builtin); ok && bi.Name() == "copy" && len(c.Call.Args) == 2 && c.Call.Args[1] == ssa.Value(x) {
							key := fmt.Sprintf("%s | copy source %s[%s:%s]", fnName(f), fname, shortOpt(x.Low), shortOpt(x.High))
							if x.High != nil && staleBounded(e, f, b, base, x.High, 0) {
								r.OK("STALE", key, at, "copy source ends at or below the count field")
							} else {
								r.Bad("STALE", key, at, "copy reads elements of the recycled array beyond the count this call wrote")
							}
						}
					}
					return
				}
				// byte scratch: which uses?
				key := fmt.Sprintf("%s | scratch %s[%s:%s]", fnName(f), fname, shortOpt(x.Low), shortOpt(x.High))
				escapes := false
				filled := false
				for _, rf := range refs(x) {
					switch u := rf.(type) {
					case *ssa.Return:
						escapes = true
						// the return must be dominated by the nil-error edge of io.ReadFull(_, x)
						for _, rf2 := range refs(x) {
							if c, ok := rf2.(*ssa.Call); ok && isCallTo(&c.Call, "io.ReadFull") && len(c.Call.Args) == 2 && c.Call.Args[1] == ssa.Value(x) {
								if errX := tupleExtract(c, 1); errX != nil && dominatedByNil(errX, u.Block()) {
									filled = true
								}
							}
						}
					case *ssa.Store:
						if u.Val == ssa.Value(x) {
							escapes = true
						}
					}
				}
				if !escapes {
					r.OK("STALE", key, at, "scratch window does not leave the function (read target only)")
				} else if filled {
					r.OK("STALE", key, at, "returned only under the nil-error edge of io.ReadFull on exactly this window: every byte was written by this call")
				} else {
					r.Bad("STALE", key, at, "a window of the recycled scratch array leaves the function without io.ReadFull having filled it under a nil error: bytes of an earlier decode can be observed after a short read")
				}
			}
		})
	}
}

// fillerK: number of leading bytes of slice parameter #pi that f writes on every path to a return
// (encoding/binary PutUintN directly or through wrappers); 0 = none proved.
func fillerK(f *ssa.Function, pi int, depth int) int64 {
	switch f.String() {
	case "(encoding/binary.littleEndian).PutUint16", "(encoding/binary.bigEndian).PutUint16":
		if pi == 1 {
			return 2
		}
	case "(encoding/binary.littleEndian).PutUint32", "(encoding/binary.bigEndian).PutUint32":
		if pi == 1 {
			return 4
		}
	case "(encoding/binary.littleEndian).PutUint64", "(encoding/binary.bigEndian).PutUint64":
		if pi == 1 {
			return 8
		}
	}
	if depth > 4 || !isRepoFn(f) || f.Blocks == nil || pi >= len(f.Params) {
		return 0
	}
	param := f.Params[pi]
	fillBlocks := map[*ssa.BasicBlock]int64{}
	eachInstr(f, func(b *ssa.BasicBlock, _ int, in ssa.Instruction) {
		c, ok := in.(*ssa.Call)
		if !ok {
			return
		}
		sc := c.Call.StaticCallee()
		if sc == nil {
			return
		}
		for ai, a := range c.Call.Args {
			if a == ssa.Value(param) {
				if n := fillerK(sc, ai, depth+1); n > 0 && (fillBlocks[b] == 0 || n < fillBlocks[b]) {
					fillBlocks[b] = n
				}
			}
		}
	})
	if len(fillBlocks) == 0 {
		return 0
	}
	// is a return reachable from entry without passing a fill block?
	seen := map[*ssa.BasicBlock]bool{}
	var st []*ssa.BasicBlock
	if fillBlocks[f.Blocks[0]] == 0 {
		st = append(st, f.Blocks[0])
		seen[f.Blocks[0]] = true
	}
	for len(st) > 0 {
		b := st[len(st)-1]
		st = st[:len(st)-1]
		if _, ok := b.Instrs[len(b.Instrs)-1].(*ssa.Return); ok {
			return 0
		}
		for _, s := range b.Succs {
			if !seen[s] && fillBlocks[s] == 0 {
				seen[s] = true
				st = append(st, s)
			}
		}
	}
	min := int64(1 << 30)
	for _, n := range fillBlocks {
		if n < min {
			min = n
		}
	}
	return min
}

func shortOpt(v ssa.Value) string {
	if v == nil {
		return ""
	}
	return shortVal(v)
}

// addrIsRead: the element address is used for a load (directly or through field addresses), not only as a store target.
func addrIsRead(a ssa.Value) bool {
	for _, rf := range refs(a) {
		switch u := rf.(type) {
		case *ssa.UnOp:
			if u.Op == token.MUL {
				return true
			}
		case *ssa.FieldAddr:
			if addrIsRead(u) {
				return true
			}
		case *ssa.Call, *ssa.MakeInterface:
			return true
		}
	}
	return false
}

// staleBounded: idx - count ≤ c for some load `count` of an unsigned/int scalar field of base in f that E3 relates.
func staleBounded(e *E3, f *ssa.Function, at *ssa.BasicBlock, base ssa.Value, idx ssa.Value, c int64) bool {
	ok := false
	eachInstr(f, func(b *ssa.BasicBlock, _ int, in ssa.Instruction) {
		if ok {
			return
		}
		ld, isLd := in.(*ssa.UnOp)
		if !isLd || ld.Op != token.MUL {
			return
		}
		fa, isFa := ld.X.(*ssa.FieldAddr)
		if !isFa || !sameAddrStrict(fa.X, base) && fa.X != base {
			return
		}
		if !isIntType(ld.Type()) {
			return
		}
		if fieldName(fa.X.Type(), fa.Field) != "len" && !strings.Contains(strings.ToLower(fieldName(fa.X.Type(), fa.Field)), "len") && !strings.Contains(strings.ToLower(fieldName(fa.X.Type(), fa.Field)), "count") {
			return
		}
		if !b.Dominates(at) && b != at {
			return
		}
		if e.ProveLE(at, e.termOf(idx), e.termOf(ld), c) {
			ok = true
		}
	})
	return ok
}

// dominatedByNil: block b is dominated by the edge on which errV == nil.
func dominatedByNil(errV ssa.Value, b *ssa.BasicBlock) bool {
	for _, cd := range condsAt(b) {
		bo, ok := cd.V.(*ssa.BinOp)
		if !ok || (bo.Op != token.EQL && bo.Op != token.NEQ) {
			continue
		}
		var t ssa.Value
		if isNilConst(bo.Y) {
			t = bo.X
		} else if isNilConst(bo.X) {
			t = bo.Y
		} else {
			continue
		}
		if t != errV && !sameErr(t, errV) {
			continue
		}
		if (bo.Op == token.EQL) == cd.True {
			return true
		}
	}
	return false
}

// ---- ESC ---------------------------------------------------------------------------------------

// resultStructs: exported struct types of library packages that decode entry points hand to the caller
// (return types and the exported fields of the reader objects), closed under struct-typed fields.
func resultStructs(p *Prog, dec []*ssa.Function) map[*types.Named]bool {
	out := map[*types.Named]bool{}
	var add func(t types.Type, depth int)
	add = func(t types.Type, depth int) {
		if depth > 6 {
			return
		}
		switch x := t.(type) {
		case *types.Pointer:
			add(x.Elem(), depth+1)
		case *types.Slice:
			add(x.Elem(), depth+1)
		case *types.Array:
			add(x.Elem(), depth+1)
		case *types.Named:
			st, ok := x.Underlying().(*types.Struct)
			if !ok || !isRepoPath(pkgPathOf(x)) || out[x] {
				return
			}
			out[x] = true
			for i := 0; i < st.NumFields(); i++ {
				add(st.Field(i).Type(), depth+1)
			}
		}
	}
	for _, f := range dec {
		if strings.HasPrefix(f.Name(), "New") {
			continue // constructors hand out reader objects, not results
		}
		res := f.Signature.Results()
		for i := 0; i < res.Len(); i++ {
			add(res.At(i).Type(), 0)
		}
	}
	// the exported result fields of reader objects handed out by constructors: ifdReader.Exif, xmp.XMP
	for _, rel := range []struct{ rel, name string }{{"exif2", "Exif"}, {"xmp", "XMP"}} {
		if pk := p.LibPkg(rel.rel); pk != nil {
			if o := pk.Types.Scope().Lookup(rel.name); o != nil {
				add(o.Type(), 0)
			}
		}
	}
	return out
}

func refLike(t types.Type) bool {
	switch x := t.Underlying().(type) {
	case *types.Slice, *types.Pointer, *types.Map, *types.Chan, *types.Interface, *types.Signature:
		return true
	case *types.Basic:
		return x.Kind() == types.UnsafePointer
	}
	return false
}

type freshCtx struct {
	p     *Prog
	memo  map[*ssa.Function]int // 0 unknown, 1 in progress, 2 fresh, 3 not fresh
	why   string
	stack int

	fieldMemo map[string]int
}

// fresh: v denotes memory allocated for this result (never recycled: not a pool object, not a bufio window).
func (c *freshCtx) fresh(v ssa.Value, depth int) bool {
	if depth > 12 {
		c.why = "value flow too deep to follow"
		return false
	}
	switch x := v.(type) {
	case *ssa.Const:
		return true
	case *ssa.MakeSlice, *ssa.MakeMap, *ssa.MakeChan, *ssa.MakeClosure, *ssa.Function:
		return true
	case *ssa.Alloc:
		if x.Heap {
			return true
		}
		return true // a local: its address escaping is a compiler matter, the memory is new per call
	case *ssa.Slice:
		return c.fresh(x.X, depth+1)
	case *ssa.ChangeType:
		return c.fresh(x.X, depth+1)
	case *ssa.MakeInterface:
		if !refLike(x.X.Type()) {
			return true
		}
		return c.fresh(x.X, depth+1)
	case *ssa.Convert:
		// string <-> []byte conversions copy
		return true
	case *ssa.Phi:
		for _, e := range x.Edges {
			if e == ssa.Value(x) {
				continue
			}
			if !c.fresh(e, depth+1) {
				return false
			}
		}
		return true
	case *ssa.Extract:
		if call, ok := x.Tuple.(*ssa.Call); ok {
			return c.freshCall(call, x.Index, depth)
		}
		if lk, ok := x.Tuple.(*ssa.Lookup); ok {
			return c.fresh(lk, depth+1)
		}
		c.why = "tuple of unknown origin"
		return false
	case *ssa.Call:
		return c.freshCall(x, 0, depth)
	case *ssa.UnOp:
		if x.Op == token.MUL {
			// a load: fresh if it reads a field of a result struct (checked at its own store) or a local
			if fa, ok := x.X.(*ssa.FieldAddr); ok {
				if n := namedOfPtr(fa.X.Type()); n != nil && c.results()[n] {
					return true
				}
			}
			if a, ok := x.X.(*ssa.Alloc); ok {
				// every store into the local must be fresh
				okAll := true
				for _, rf := range refs(a) {
					if st, ok := rf.(*ssa.Store); ok && st.Addr == ssa.Value(a) && !c.fresh(st.Val, depth+1) {
						okAll = false
					}
				}
				return okAll
			}
			if fa, ok := x.X.(*ssa.FieldAddr); ok {
				// field of a library object: every store into that field anywhere in the library must be fresh
				if n := namedOfPtr(fa.X.Type()); n != nil && isRepoPath(pkgPathOf(n)) {
					key := n.Obj().Name() + "." + fieldName(fa.X.Type(), fa.Field)
					if c.fieldMemo == nil {
						c.fieldMemo = map[string]int{}
					}
					switch c.fieldMemo[key] {
					case 1, 2:
						return true
					case 3:
						c.why = "field " + key + " holds memory not allocated for the result"
						return false
					}
					c.fieldMemo[key] = 1
					ok, stores := true, 0
					for _, g := range c.p.AllLibFns() {
						eachInstr(g, func(_ *ssa.BasicBlock, _ int, in ssa.Instruction) {
							st, isSt := in.(*ssa.Store)
							if !isSt {
								return
							}
							fa2, isFa := st.Addr.(*ssa.FieldAddr)
							if !isFa || fa2.Field != fa.Field || namedOfPtr(fa2.X.Type()) != n {
								return
							}
							stores++
							if !c.fresh(st.Val, depth+1) {
								ok = false
							}
						})
					}
					if ok && stores > 0 {
						c.fieldMemo[key] = 2
						return true
					}
					c.fieldMemo[key] = 3
					c.why = "field " + key + ": " + c.why
					return false
				}
			}
			if g, ok := x.X.(*ssa.Global); ok && !isRepoPath(g.Pkg.Pkg.Path()) {
				return true // shared immutable object of a dependency (time.UTC)
			}
			// element of a package-level table that only the package initialiser writes: the same object for every
			// call, whatever came before (not recycled memory)
			if ia, ok := x.X.(*ssa.IndexAddr); ok {
				if g, ok := ia.X.(*ssa.Global); ok && isRepoPath(g.Pkg.Pkg.Path()) && c.p.Tables().Immutable(g) {
					return true
				}
			}
			c.why = "loaded from " + shortVal(x.X)
			return false
		}
	case *ssa.Lookup:
		// element of a package-level cache: its inserts are checked by GLOB-W (value determined by the key)
		if g := loadOfGlobal(x.X); g != nil {
			return true
		}
		c.why = "map element of " + shortVal(x.X)
		return false
	case *ssa.FieldAddr, *ssa.IndexAddr:
		// address inside some object: fresh iff the object is
		var base ssa.Value
		if fa, ok := x.(*ssa.FieldAddr); ok {
			base = fa.X
		} else {
			base = x.(*ssa.IndexAddr).X
		}
		return c.fresh(base, depth+1)
	case *ssa.Parameter:
		c.why = "parameter " + x.Name() + " (caller-owned or recycled memory)"
		return false
	}
	c.why = fmt.Sprintf("origin %s", shortVal(v))
	return false
}

var resultSet map[*types.Named]bool

func (c *freshCtx) results() map[*types.Named]bool { return resultSet }

func namedOfPtr(t types.Type) *types.Named {
	if pt, ok := t.Underlying().(*types.Pointer); ok {
		if n, ok := pt.Elem().(*types.Named); ok {
			return n
		}
	}
	return nil
}

func (c *freshCtx) freshCall(call *ssa.Call, idx int, depth int) bool {
	cc := &call.Call
	if b, ok := cc.Value.(*ssa.Builtin); ok {
		switch b.Name() {
		case "append":
			// append(fresh-or-nil, ...) or growing the same result field
			if c.fresh(cc.Args[0], depth+1) {
				// appended elements of reference type must be fresh as well
				if len(cc.Args) == 2 {
					if sl, ok := cc.Args[1].Type().Underlying().(*types.Slice); ok && refLike(sl.Elem()) {
						return c.fresh(cc.Args[1], depth+1)
					}
				}
				return true
			}
			return false
		case "new", "make":
			return true
		}
		c.why = "builtin " + b.Name()
		return false
	}
	if cc.IsInvoke() {
		c.why = "result of interface method " + cc.Method.Name()
		return false
	}
	sc := cc.StaticCallee()
	if sc == nil {
		c.why = "result of a dynamic call"
		return false
	}
	switch sc.String() {
	case "io.ReadAll", "bytes.Clone", "strings.Clone", "(*bytes.Buffer).Bytes", "time.FixedZone", "time.Date", "errors.New", "fmt.Errorf",
		"github.com/pkg/errors.Wrap", "github.com/pkg/errors.Wrapf", "github.com/pkg/errors.WithMessage", "github.com/pkg/errors.New", "github.com/pkg/errors.Errorf":
		return true
	}
	if !isRepoFn(sc) || sc.Blocks == nil {
		c.why = "result of " + sc.String()
		return false
	}
	switch c.memo[sc] {
	case 1:
		return true // optimistic inside a cycle
	case 2:
		return true
	case 3:
		c.why = "result of " + fnName(sc)
		return false
	}
	c.memo[sc] = 1
	ok := true
	eachInstr(sc, func(_ *ssa.BasicBlock, _ int, in ssa.Instruction) {
		if ret, isRet := in.(*ssa.Return); isRet && idx < len(ret.Results) {
			if refLike(ret.Results[idx].Type()) && !c.fresh(ret.Results[idx], depth+1) {
				ok = false
			}
		}
	})
	if ok {
		c.memo[sc] = 2
	} else {
		c.memo[sc] = 3
		if !strings.Contains(c.why, fnName(sc)) {
			c.why = fnName(sc) + " returns " + c.why
		}
	}
	return ok
}

// ruleEsc: every store of a reference-typed value (slice, pointer, map, interface) into a field of a result
// struct, and every reference-typed result of a decode entry point, must denote memory allocated for the
// result — never a window of a pooled object, of a bufio buffer, or the caller's reader. Strings are immutable
// copies as long as no library package imports unsafe (checked).
func ruleEsc(p *Prog, r *Report) {
	dec, err := p.DecEntries()
	if err != nil {
		r.Fatal(err.Error())
		return
	}
	// unsafe / reflect headers
	for _, pk := range p.Lib {
		bad := ""
		for path := range pk.Imports {
			if path == "unsafe" {
				bad = "unsafe"
			}
		}
		key := relPkg(pk.PkgPath) + " | imports"
		if bad != "" {
			r.Bad("ESC", key, "-", "library package imports "+bad+": strings and slices can alias recycled buffers, the copy argument of ESC no longer holds")
		} else {
			r.OK("ESC", key, "-", "no unsafe import: string(b) is a copy")
		}
	}
	resultSet = resultStructs(p, dec)
	ctx := &freshCtx{p: p, memo: map[*ssa.Function]int{}}
	entry := map[*ssa.Function]bool{}
	for _, f := range dec {
		entry[f] = true
	}
	n := 0
	for _, f := range p.LibReach(dec) {
		eachInstr(f, func(_ *ssa.BasicBlock, _ int, in ssa.Instruction) {
			switch x := in.(type) {
			case *ssa.Store:
				fa, ok := x.Addr.(*ssa.FieldAddr)
				if !ok || !refLike(x.Val.Type()) {
					return
				}
				nt := namedOfPtr(fa.X.Type())
				if nt == nil || !resultSet[nt] {
					return
				}
				n++
				key := fmt.Sprintf("%s | store %s.%s", fnName(f), nt.Obj().Name(), fieldName(fa.X.Type(), fa.Field))
				at := p.posStr(instrPos(in))
				ctx.why = ""
				if ctx.fresh(x.Val, 0) {
					r.OK("ESC", key, at, "stored value is allocated for the result (make/append/conversion/fresh callee result)")
				} else {
					r.Bad("ESC", key, at, "a reference to memory not allocated for the result is stored into a result field ("+ctx.why+"): the returned value can change when the buffer is recycled")
				}
			case *ssa.Return:
				if !entry[f] || strings.HasPrefix(f.Name(), "New") {
					return
				}
				for i, rv := range x.Results {
					if !refLike(rv.Type()) || isErrorType(rv.Type()) {
						continue
					}
					n++
					key := fmt.Sprintf("%s | result #%d", fnName(f), i)
					at := p.posStr(instrPos(in))
					ctx.why = ""
					if ctx.fresh(rv, 0) {
						r.OK("ESC", key, at, "returned reference is allocated for the result")
					} else {
						r.Bad("ESC", key, at, "entry point returns a reference to memory not allocated for the result ("+ctx.why+")")
					}
				}
			}
		})
	}
	r.Extra("esc_result_struct_types", len(resultSet))
	r.Extra("esc_reference_stores", n)
}

// ---- POOL-OWN -----------------------------------------------------------------------------------
//
// Every object handed to pool.Put must have come out of the same pool: otherwise an object that the
// caller still owns (its own bufio.Reader) is recycled into another call — a cross-call leak (C04)
// and a data race between goroutines (C05). Accepted shapes, enumerated from the repository:
//   (a) the argument is the result of Get on the same pool on every flow path (through type
//       assertions, phis, locals, and fields all of whose stores in the library are such results);
//   (b) the Put is guarded by the true edge of a boolean cell (local, captured variable or struct
//       field) whose every store of a non-false value sits in a block dominated by a Get on that
//       pool, and the argument may come from that Get.

func rulePoolOwn(p *Prog, r *Report) {
	for _, ps := range poolSites(p, "Put") {
		f := ps.f
		if ps.pool == nil {
			r.Undecided("POOL-OWN", fnName(f)+" | Put on a pool that is not a package-level variable", p.posStr(instrPos(ps.call)), "pool receiver not resolved")
			continue
		}
		c := ps.call.Common()
		v := c.Args[1]
		if mi, ok := v.(*ssa.MakeInterface); ok {
			v = mi.X
		}
		key := fmt.Sprintf("%s | Put %s", fnName(f), globalName(ps.pool))
		at := p.posStr(instrPos(ps.call))
		all, some := fromPool(p, v, ps.pool, 0, map[ssa.Value]bool{})
		if all {
			r.OK("POOL-OWN", key, at, "the released object is a Get result of the same pool on every flow path")
			continue
		}
		if some && putGuardedByGetFlag(p, ps) {
			r.OK("POOL-OWN", key, at, "released only under a flag that is set exactly where the object was taken from the pool")
			continue
		}
		if !some {
			r.Bad("POOL-OWN", key, at, "the object handed to Put never comes from this pool: a caller-owned object is recycled into other calls")
		} else {
			r.Bad("POOL-OWN", key, at, "the object handed to Put may be one the caller supplied (not every flow path comes from Get, and the release is not guarded by a flag set only where Get happened): the caller's reader is recycled into other calls while still in use")
		}
	}
}

func isGetOn(v ssa.Value, pool *ssa.Global) bool {
	if ta, ok := v.(*ssa.TypeAssert); ok {
		v = ta.X
	}
	if ex, ok := v.(*ssa.Extract); ok {
		if ta, ok := ex.Tuple.(*ssa.TypeAssert); ok {
			v = ta.X
		}
	}
	c, ok := v.(*ssa.Call)
	if !ok || !isCallTo(&c.Call, "(*sync.Pool).Get") || len(c.Call.Args) == 0 {
		return false
	}
	g, _ := c.Call.Args[0].(*ssa.Global)
	return g == pool
}

// fromPool: (every flow path into v is a Get on pool, some flow path is)
func fromPool(p *Prog, v ssa.Value, pool *ssa.Global, depth int, seen map[ssa.Value]bool) (all, some bool) {
	if depth > 10 || seen[v] {
		return true, false // cycle: neutral
	}
	seen[v] = true
	if isGetOn(v, pool) {
		return true, true
	}
	merge := func(vals []ssa.Value) (bool, bool) {
		a, s := len(vals) > 0, false
		for _, x := range vals {
			xa, xs := fromPool(p, x, pool, depth+1, seen)
			a = a && xa
			s = s || xs
		}
		return a, s
	}
	switch x := v.(type) {
	case *ssa.Phi:
		return merge(x.Edges)
	case *ssa.ChangeType:
		return fromPool(p, x.X, pool, depth+1, seen)
	case *ssa.MakeInterface:
		return fromPool(p, x.X, pool, depth+1, seen)
	case *ssa.UnOp:
		if x.Op != token.MUL {
			return false, false
		}
		switch a := x.X.(type) {
		case *ssa.Alloc:
			var vals []ssa.Value
			for _, rf := range refs(a) {
				if st, ok := rf.(*ssa.Store); ok && st.Addr == ssa.Value(a) {
					vals = append(vals, st.Val)
				}
			}
			return merge(vals)
		case *ssa.FreeVar:
			return false, false
		case *ssa.FieldAddr:
			n := namedOfPtr(a.X.Type())
			if n == nil {
				return false, false
			}
			var vals []ssa.Value
			for _, g := range p.AllLibFns() {
				eachInstr(g, func(_ *ssa.BasicBlock, _ int, in ssa.Instruction) {
					if st, ok := in.(*ssa.Store); ok {
						if fa, ok := st.Addr.(*ssa.FieldAddr); ok && fa.Field == a.Field && namedOfPtr(fa.X.Type()) == n {
							vals = append(vals, st.Val)
						}
					}
				})
			}
			return merge(vals)
		}
	}
	return false, false
}

// putGuardedByGetFlag: the Put's block is dominated by the true edge of a load of a boolean cell whose
// every non-false store is in a block dominated by a Get on the same pool.
func putGuardedByGetFlag(p *Prog, ps poolSite) bool {
	blk := ps.call.Block()
	for _, cd := range condsAt(blk) {
		if !cd.True {
			continue
		}
		ld, ok := cd.V.(*ssa.UnOp)
		if !ok || ld.Op != token.MUL || !isBoolType(ld.Type()) {
			continue
		}
		var stores []*ssa.Store
		switch a := ld.X.(type) {
		case *ssa.FreeVar:
			// the captured variable: find the binding in the parent's MakeClosure
			par := ps.f.Parent()
			if par == nil {
				continue
			}
			idx := -1
			for i, fv := range ps.f.FreeVars {
				if fv == a {
					idx = i
				}
			}
			eachInstr(par, func(_ *ssa.BasicBlock, _ int, in ssa.Instruction) {
				if mc, ok := in.(*ssa.MakeClosure); ok && mc.Fn == ssa.Value(ps.f) && idx >= 0 && idx < len(mc.Bindings) {
					if al, ok := mc.Bindings[idx].(*ssa.Alloc); ok {
						for _, rf := range refs(al) {
							if st, ok := rf.(*ssa.Store); ok && st.Addr == ssa.Value(al) {
								stores = append(stores, st)
							}
						}
					}
				}
			})
		case *ssa.Alloc:
			for _, rf := range refs(a) {
				if st, ok := rf.(*ssa.Store); ok && st.Addr == ssa.Value(a) {
					stores = append(stores, st)
				}
			}
		case *ssa.FieldAddr:
			n := namedOfPtr(a.X.Type())
			if n == nil {
				continue
			}
			for _, g := range p.AllLibFns() {
				eachInstr(g, func(_ *ssa.BasicBlock, _ int, in ssa.Instruction) {
					if st, ok := in.(*ssa.Store); ok {
						if fa, ok := st.Addr.(*ssa.FieldAddr); ok && fa.Field == a.Field && namedOfPtr(fa.X.Type()) == n {
							stores = append(stores, st)
						}
					}
				})
			}
		default:
			continue
		}
		if len(stores) == 0 {
			continue
		}
		okAll, anyTrue := true, false
		for _, st := range stores {
			if cst, ok := st.Val.(*ssa.Const); ok {
				if bv, isB := boolConst(cst); isB && !bv {
					continue // storing false never enables the release
				}
			}
			anyTrue = true
			// a Get on the pool must dominate this store (same function)
			dominated := false
			eachInstr(st.Parent(), func(b *ssa.BasicBlock, _ int, in ssa.Instruction) {
				c, ok := in.(*ssa.Call)
				if !ok || !isCallTo(&c.Call, "(*sync.Pool).Get") || len(c.Call.Args) == 0 {
					return
				}
				if g, _ := c.Call.Args[0].(*ssa.Global); g != ps.pool {
					return
				}
				// same block (executed together, either order) or a dominating block
				if b == st.Block() || b.Dominates(st.Block()) {
					dominated = true
				}
			})
			if !dominated {
				okAll = false
			}
		}
		if okAll && anyTrue {
			return true
		}
	}
	return false
}

// ---- POOL-NEW: a pool's constructor hands out an object of its own ---------------------------------
//
// sync.Pool.New is called whenever the pool is empty, possibly by several goroutines at once. If it can return
// the same object twice (a captured variable, a package-level value) two overlapping calls share one buffer —
// a data race and results that depend on the other call's bytes. Every value New returns must therefore be
// allocated inside that invocation: a heap allocation in the function's own body or the result of a
// constructor call, never a captured variable, a global or a parameter.

func poolNewFns(p *Prog, pool *ssa.Global) []*ssa.Function {
	var out []*ssa.Function
	var fromVal func(v ssa.Value, depth int)
	fromVal = func(v ssa.Value, depth int) {
		if depth > 3 {
			return
		}
		switch x := v.(type) {
		case *ssa.Function:
			out = append(out, x)
		case *ssa.MakeClosure:
			if fn, ok := x.Fn.(*ssa.Function); ok {
				out = append(out, fn)
			}
		case *ssa.ChangeType:
			fromVal(x.X, depth+1)
		case *ssa.Call:
			if sc := x.Call.StaticCallee(); sc != nil {
				eachInstr(sc, func(_ *ssa.BasicBlock, _ int, in ssa.Instruction) {
					if rt, ok := in.(*ssa.Return); ok && len(rt.Results) == 1 {
						fromVal(rt.Results[0], depth+1)
					}
				})
			}
		case *ssa.Phi:
			for _, e := range x.Edges {
				fromVal(e, depth+1)
			}
		}
	}
	for _, f := range p.AllLibFns() {
		eachInstr(f, func(_ *ssa.BasicBlock, _ int, in ssa.Instruction) {
			st, ok := in.(*ssa.Store)
			if !ok {
				return
			}
			fa, ok := st.Addr.(*ssa.FieldAddr)
			if !ok || fa.X != ssa.Value(pool) || fieldName(fa.X.Type(), fa.Field) != "New" {
				return
			}
			fromVal(st.Val, 0)
		})
	}
	return out
}

func rulePoolNew(p *Prog, r *Report) {
	seen := map[*ssa.Global]bool{}
	var pools []*ssa.Global
	for _, m := range []string{"Get", "Put"} {
		for _, ps := range poolSites(p, m) {
			if ps.pool != nil && !seen[ps.pool] {
				seen[ps.pool] = true
				pools = append(pools, ps.pool)
			}
		}
	}
	sort.Slice(pools, func(i, j int) bool { return globalName(pools[i]) < globalName(pools[j]) })
	for _, pool := range pools {
		key := globalName(pool) + " | New returns an object of its own"
		fns := poolNewFns(p, pool)
		if len(fns) == 0 {
			r.Undecided("POOL-NEW", key, p.posStr(pool.Pos()), "constructor of the pool not resolved")
			continue
		}
		bad := ""
		for _, fn := range fns {
			eachInstr(fn, func(_ *ssa.BasicBlock, _ int, in ssa.Instruction) {
				rt, ok := in.(*ssa.Return)
				if !ok || len(rt.Results) != 1 {
					return
				}
				if w := freshInCall(p, fn, rt.Results[0], 0, map[ssa.Value]bool{}); w != "" {
					bad = fmt.Sprintf("the constructor %s returns %s (%s): every call that finds the pool empty receives the same object, so overlapping calls share one buffer", fnName(fn), w, p.posStr(instrPos(rt)))
				}
			})
		}
		if bad != "" {
			r.Bad("POOL-NEW", key, p.posStr(pool.Pos()), bad)
		} else {
			r.OK("POOL-NEW", key, p.posStr(pool.Pos()), fmt.Sprintf("%d constructor(s): every returned object is allocated inside the invocation", len(fns)))
		}
	}
}

// freshInCall: "" when v is allocated during this invocation of fn.
func freshInCall(p *Prog, fn *ssa.Function, v ssa.Value, depth int, seen map[ssa.Value]bool) string {
	if depth > 6 || seen[v] {
		return ""
	}
	seen[v] = true
	switch x := v.(type) {
	case *ssa.MakeInterface:
		return freshInCall(p, fn, x.X, depth+1, seen)
	case *ssa.ChangeType:
		return freshInCall(p, fn, x.X, depth+1, seen)
	case *ssa.Convert:
		return freshInCall(p, fn, x.X, depth+1, seen)
	case *ssa.Alloc:
		if x.Parent() == fn {
			return ""
		}
		return "memory allocated outside the invocation"
	case *ssa.MakeSlice, *ssa.MakeMap, *ssa.MakeChan:
		return ""
	case *ssa.Slice:
		return freshInCall(p, fn, x.X, depth+1, seen)
	case *ssa.Phi:
		for _, e := range x.Edges {
			if w := freshInCall(p, fn, e, depth+1, seen); w != "" {
				return w
			}
		}
		return ""
	case *ssa.Call:
		sc := x.Call.StaticCallee()
		if sc == nil {
			return "the result of a dynamic call"
		}
		if !isRepoFn(sc) {
			if strings.HasPrefix(sc.Name(), "New") || strings.HasPrefix(sc.Name(), "new") {
				return ""
			}
			return "the result of " + sc.String() + ", which is not a constructor"
		}
		why := ""
		eachInstr(sc, func(_ *ssa.BasicBlock, _ int, in ssa.Instruction) {
			if rt, ok := in.(*ssa.Return); ok && len(rt.Results) >= 1 && why == "" {
				why = freshInCall(p, sc, rt.Results[0], depth+1, seen)
			}
		})
		return why
	case *ssa.FreeVar:
		return "the captured variable " + x.Name()
	case *ssa.Global:
		return "the package-level variable " + globalName(x)
	case *ssa.Parameter:
		return "its parameter " + x.Name()
	case *ssa.UnOp:
		if x.Op == token.MUL {
			switch a := x.X.(type) {
			case *ssa.FreeVar:
				return "the value of the captured variable " + a.Name()
			case *ssa.Global:
				return "the value of the package-level variable " + globalName(a)
			case *ssa.Alloc:
				// a local cell: every store into it must be fresh
				for _, rf := range refs(a) {
					if st, ok := rf.(*ssa.Store); ok && st.Addr == ssa.Value(a) {
						if w := freshInCall(p, fn, st.Val, depth+1, seen); w != "" {
							return w
						}
					}
				}
				return ""
			}
		}
		return "a value loaded from memory not allocated in the invocation"
	case *ssa.Const:
		return ""
	}
	return "a value of unrecognised origin (" + shortVal(v) + ")"
}
