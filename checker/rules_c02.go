package main

// C02 — every decode terminates after linear work: LOOP, RECUR, SEEKFWD.

import (
	"fmt"
	"go/token"
	"go/types"
	"os"
	"sort"
	"strings"

	"golang.org/x/tools/go/ssa"
)

func init() { register("C02", true, checkC02) }

func checkC02(p *Prog, r *Report) {
	r.Explain("LOOP: every natural loop in the library functions reachable from the decode entry points must fall into one accepted class, decided structurally: (counted) an integer phi that E3 proves strictly increasing/decreasing on every back edge and that an exit test compares with a loop-invariant bound; (slice) a slice phi re-sliced by a provably positive amount with an exit test on its length; (window) a strictly growing size handed to Peek whose error leaves the loop; (chain) a pointer walking a parent link that is only ever set on freshly created nodes; (consumer) every cyclic path passes a call that consumes input by a provably positive amount — a reader primitive or a library function whose every non-failing path does — and the loop has an exit on a reader error; (tag queue) exif2.readIfd, whose ranking argument over the pending-tag buffer is re-checked through its two structural side conditions. RECUR: every call-graph cycle among those functions is a guarded depth-counted recursion or a parent-chain delegation. READ0: every return of a library Read method is a non-nil error, the forwarded (n, err) of an underlying Read, a positive count, or (0, nil) only under len(p) == 0 of the caller's buffer — so standard fill loops (io.ReadAll) cannot spin on it. SEEKFWD: every Seek is a position query, a forward relative seek, an absolute seek outside any loop, or not on a cyclic path. The numeric bound on bytes requested and CPU time are consequences not derived here.")
	r.Trusted("bufio.Reader.Discard(n) with a nil error consumed n bytes; ReadSlice/ReadByte consume at least one byte or fail; Peek(n) fails once n exceeds the buffer or the remaining input", "io.Reader.Read returns n > 0 or an error for a non-empty buffer", "once the underlying reader fails, later Peeks of at least the same size fail too")
	dec, err := p.DecEntries()
	if err != nil {
		r.Fatal(err.Error())
		return
	}
	fs := p.LibReach(dec)
	r.Extra("functions_reachable", len(fs))
	pa := &progAnalysis{p: p, e: p.E3(), memo: map[*ssa.Function]*progSum{}, busy: map[*ssa.Function]bool{}}
	ruleLoop(p, r, fs, pa)
	ruleRecur(p, r, fs)
	ruleSeekFwd(p, r, fs)
	ruleRead0(p, r, fs)
	r.Floor("READ0", 1)
	r.Floor("LOOP", 30)
	r.Floor("RECUR", 2)
	r.Floor("SEEKFWD", 2)
}

func loopKey(f *ssa.Function, l *Loop, ord int) string {
	return fmt.Sprintf("%s | loop #%d (%s)", fnName(f), ord, l.Head.Comment)
}

// ---- progress summaries ---------------------------------------------------------------------------

type progSum struct {
	ok        bool
	needParam int // ≥ 0: progress only if this parameter is ≥ 1 at the call
	why       string
}

type progAnalysis struct {
	p    *Prog
	e    *E3
	memo map[*ssa.Function]*progSum
	busy map[*ssa.Function]bool
}

var unconditionalConsumers = map[string]bool{
	"(*bufio.Reader).ReadSlice": true, "(*bufio.Reader).ReadByte": true, "(*bufio.Reader).ReadBytes": true,
	"(*bufio.Reader).ReadString": true, "(*bufio.Reader).ReadLine": true, "(*bufio.Reader).ReadRune": true,
}

// positive: E3 proves v ≥ 1 at block b; assumeParam ≥ 0 additionally treats that parameter (and what is
// copied from it) as ≥ 1.
func (pa *progAnalysis) positive(b *ssa.BasicBlock, v ssa.Value, assumeParam *ssa.Parameter) bool {
	if assumeParam != nil {
		if stripIntConv(v) == ssa.Value(assumeParam) {
			return true
		}
		// the value Discard returned for that parameter etc. is not followed
	}
	return pa.e.ProveLE(b, zeroT, pa.e.termOf(v), -1)
}

// siteProgress: does this call consume input by a positive amount (or fail with an error)?
// Returns (yes, paramNeeded) where paramNeeded ≥ 0 means: only if the enclosing function's parameter #k ≥ 1.
func (pa *progAnalysis) siteProgress(f *ssa.Function, site ssa.CallInstruction) (bool, int) {
	c := site.Common()
	blk := site.Block()
	amountOK := func(v ssa.Value) (bool, int) {
		if pa.e.ProveLE(blk, zeroT, pa.e.termOf(v), -1) {
			return true, -1
		}
		if scanIndexPositive(pa.e, blk, v) {
			return true, -1
		}
		if prm, ok := stripIntConv(v).(*ssa.Parameter); ok {
			for i, q := range f.Params {
				if q == prm {
					return true, i
				}
			}
		}
		// at least as large as an integer parameter: positive whenever the caller passes ≥ 1
		for i, q := range f.Params {
			if isIntType(q.Type()) && pa.e.ProveLE(blk, pa.e.termOf(q), pa.e.termOf(v), 0) {
				return true, i
			}
		}
		return false, -1
	}
	lenOK := func(v ssa.Value) (bool, int) {
		lt := termT{v: pa.e.lenBase(v), len: true}
		if pa.e.ProveLE(blk, zeroT, lt, -1) {
			return true, -1
		}
		for i, q := range f.Params {
			if isIntType(q.Type()) && pa.e.ProveLE(blk, pa.e.termOf(q), lt, 0) {
				return true, i
			}
		}
		return false, -1
	}
	if c.IsInvoke() {
		switch c.Method.Name() {
		case "Discard":
			if len(c.Args) == 1 {
				return amountOK(c.Args[0])
			}
		case "Read":
			if len(c.Args) == 1 {
				return lenOK(c.Args[0])
			}
		case "Seek":
			if len(c.Args) == 2 {
				if w, ok := constInt(c.Args[1]); ok && w == 1 {
					return amountOK(c.Args[0])
				}
			}
		}
		// interface method implemented by library types (BufferedReader): fall through to callees
		ok, need := true, -1
		cs := pa.p.Callees(site)
		if len(cs) == 0 {
			return false, -1
		}
		for _, g := range cs {
			if !isLibFn(g) {
				return false, -1
			}
			s := pa.summary(g)
			if !s.ok {
				return false, -1
			}
			if s.needParam >= 0 {
				args := callArgs(c)
				if s.needParam >= len(args) {
					return false, -1
				}
				o, n := amountOK(args[s.needParam])
				if !o {
					return false, -1
				}
				if n >= 0 {
					need = n
				}
			}
		}
		return ok, need
	}
	sc := c.StaticCallee()
	if sc == nil {
		return false, -1
	}
	name := sc.String()
	switch {
	case name == "(*bufio.Reader).Discard":
		return amountOK(c.Args[1])
	case unconditionalConsumers[name]:
		return true, -1
	case name == "io.ReadFull" || name == "io.ReadAtLeast":
		return lenOK(c.Args[1])
	case name == "(*bufio.Reader).Read":
		return lenOK(c.Args[1])
	case name == "io.CopyN":
		return amountOK(c.Args[2])
	}
	if isLibFn(sc) && sc.Blocks != nil {
		s := pa.summary(sc)
		if !s.ok {
			return false, -1
		}
		if s.needParam >= 0 {
			args := callArgs(c)
			if s.needParam >= len(args) {
				return false, -1
			}
			return amountOK(args[s.needParam])
		}
		return true, -1
	}
	return false, -1
}

// summary: every path of g from entry to a return that may carry a nil error passes a progress site.
func (pa *progAnalysis) summary(g *ssa.Function) *progSum {
	if s, ok := pa.memo[g]; ok {
		return s
	}
	if pa.busy[g] {
		return &progSum{ok: true, needParam: -1} // tail delegation along a chain (box.Discard → outer.Discard): coinductive
	}
	pa.busy[g] = true
	defer delete(pa.busy, g)
	s := &progSum{needParam: -1}
	if g.Blocks == nil {
		s.why = "no body"
		pa.memo[g] = s
		return s
	}
	progBlocks := map[*ssa.BasicBlock]bool{}
	need := -1
	eachCall(g, func(site ssa.CallInstruction) {
		if _, isDefer := site.(*ssa.Defer); isDefer {
			return
		}
		ok, n := pa.siteProgress(g, site)
		if ok {
			if n >= 0 {
				if need >= 0 && need != n {
					return
				}
				need = n
			}
			progBlocks[site.Block()] = true
		}
	})
	if len(progBlocks) == 0 {
		s.why = "no consuming call"
		pa.memo[g] = s
		return s
	}
	// error result index
	errIdx := -1
	res := g.Signature.Results()
	for i := 0; i < res.Len(); i++ {
		if isErrorType(res.At(i).Type()) {
			errIdx = i
		}
	}
	var assume *ssa.Parameter
	if need >= 0 {
		assume = g.Params[need]
	}
	// reach a return without passing a progress block?
	seen := map[*ssa.BasicBlock]bool{}
	var st []*ssa.BasicBlock
	if !progBlocks[g.Blocks[0]] {
		st = append(st, g.Blocks[0])
		seen[g.Blocks[0]] = true
	}
	bad := ""
	for len(st) > 0 && bad == "" {
		b := st[len(st)-1]
		st = st[:len(st)-1]
		if infeasibleUnderPositive(b, assume) {
			continue
		}
		if ret, ok := b.Instrs[len(b.Instrs)-1].(*ssa.Return); ok {
			if errIdx >= 0 && errIdx < len(ret.Results) {
				ev, eb := spilledResult(ret.Results[errIdx], b)
				if pa.e.definitelyNonNil(ev, eb) {
					continue // failing return: the caller's loop leaves on it
				}
			}
			stop := false
			for _, rv := range ret.Results {
				if c, ok := rv.(*ssa.Const); ok && isBoolType(c.Type()) {
					if bv, isB := boolConst(c); isB && !bv {
						stop = true // "no more" flag: the caller's loop condition tests it (checked by the error-exit requirement)
					}
				}
			}
			if stop {
				continue
			}
			bad = "a return without consumption at " + pa.p.posStr(instrPos(ret))
			break
		}
		for _, sc := range b.Succs {
			if !seen[sc] && !progBlocks[sc] {
				seen[sc] = true
				st = append(st, sc)
			}
		}
	}
	if bad != "" {
		s.why = bad
	} else {
		s.ok, s.needParam = true, need
	}
	if os.Getenv("IMVERIF_DEBUG") != "" {
		fmt.Fprintf(os.Stderr, "progress summary %s: ok=%v need=%d why=%s\n", fnName(g), s.ok, s.needParam, s.why)
	}
	pa.memo[g] = s
	return s
}

// infeasibleUnderPositive: block is dominated by the true edge of `param == 0` (or false edge of `param != 0`, `param > 0`).
func infeasibleUnderPositive(b *ssa.BasicBlock, prm *ssa.Parameter) bool {
	if prm == nil {
		return false
	}
	for _, cd := range condsAt(b) {
		bo, ok := cd.V.(*ssa.BinOp)
		if !ok {
			continue
		}
		if stripIntConv(bo.X) != ssa.Value(prm) {
			continue
		}
		k, ok := constInt(bo.Y)
		if !ok {
			continue
		}
		switch {
		case bo.Op == token.EQL && k == 0 && cd.True,
			bo.Op == token.NEQ && k == 0 && !cd.True,
			bo.Op == token.GTR && k == 0 && !cd.True,
			bo.Op == token.LEQ && k == 0 && cd.True,
			bo.Op == token.LSS && k == 1 && cd.True,
			bo.Op == token.GEQ && k == 1 && !cd.True:
			return true
		}
	}
	return false
}

// ---- LOOP -----------------------------------------------------------------------------------------

func ruleLoop(p *Prog, r *Report, fs []*ssa.Function, pa *progAnalysis) {
	classes := map[string]int{}
	for _, f := range fs {
		loops := findLoops(f)
		for i, l := range loops {
			key := loopKey(f, l, i+1)
			at := p.posStr(instrPos(l.Head.Instrs[0]))
			cls, why := classifyLoop(p, pa, f, l)
			if cls != "" {
				classes[strings.SplitN(cls, ":", 2)[0]]++
				r.OK("LOOP", key, at, cls)
			} else {
				r.Bad("LOOP", key, at, "loop is in none of the accepted progress classes: "+why)
			}
		}
	}
	r.Extra("loop_classes", classes)
}

func loopInvariant(l *Loop, v ssa.Value) bool {
	switch x := v.(type) {
	case *ssa.Const, *ssa.Parameter, *ssa.Global, *ssa.FreeVar:
		return true
	case ssa.Instruction:
		if !l.Blocks[x.Block()] {
			return true
		}
		// computed inside the loop from invariant operands by pure arithmetic / len / conversions
		switch y := v.(type) {
		case *ssa.BinOp:
			return loopInvariant(l, y.X) && loopInvariant(l, y.Y)
		case *ssa.Convert:
			return loopInvariant(l, y.X)
		case *ssa.ChangeType:
			return loopInvariant(l, y.X)
		case *ssa.Call:
			if b, ok := y.Call.Value.(*ssa.Builtin); ok && b.Name() == "len" {
				return loopInvariant(l, y.Call.Args[0])
			}
		case *ssa.UnOp:
			if y.Op == token.MUL {
				// a field load inside the loop: invariant if the loop has no store to that field and the address base is invariant
				if fa, ok := y.X.(*ssa.FieldAddr); ok && loopInvariant(l, fa.X) {
					n := namedOfPtr(fa.X.Type())
					for b := range l.Blocks {
						for _, in := range b.Instrs {
							if st, ok := in.(*ssa.Store); ok {
								if fa2, ok := st.Addr.(*ssa.FieldAddr); ok && fa2.Field == fa.Field && namedOfPtr(fa2.X.Type()) == n {
									return false
								}
							}
							if _, ok := in.(ssa.CallInstruction); ok {
								// a callee could write the field: only accept when the loop calls nothing that receives the base
								cc := in.(ssa.CallInstruction).Common()
								for _, a := range callArgs(cc) {
									if a == fa.X {
										return false
									}
								}
							}
						}
					}
					return true
				}
			}
		case *ssa.FieldAddr:
			return loopInvariant(l, y.X)
		}
	}
	return false
}

// exitTests: If instructions in the loop with one successor outside the loop.
func exitTests(l *Loop) []*ssa.If {
	var out []*ssa.If
	for b := range l.Blocks {
		if len(b.Instrs) == 0 {
			continue
		}
		ifi, ok := b.Instrs[len(b.Instrs)-1].(*ssa.If)
		if !ok {
			continue
		}
		if !l.Blocks[b.Succs[0]] || !l.Blocks[b.Succs[1]] {
			out = append(out, ifi)
		}
	}
	return out
}

func classifyLoop(p *Prog, pa *progAnalysis, f *ssa.Function, l *Loop) (string, string) {
	e := pa.e
	H := l.Head
	var whys []string
	// (counted) / (slice) / (window) / (chain): look at the phis of the header
	for _, in := range H.Instrs {
		phi, ok := in.(*ssa.Phi)
		if !ok {
			break
		}
		var back []int
		for k, pr := range H.Preds {
			if l.Blocks[pr] {
				back = append(back, k)
			}
		}
		if len(back) == 0 {
			continue
		}
		switch {
		case isIntType(phi.Type()):
			inc, dec := true, true
			for _, k := range back {
				pr := H.Preds[k]
				v := phi.Edges[k]
				pt, vt := e.termOf(phi), e.termOf(v)
				if !e.ProveLE(pr, pt, vt, -1) { // phi − v ≤ −1
					inc = false
				}
				if !e.ProveLE(pr, vt, pt, -1) {
					dec = false
				}
			}
			if !inc && !dec {
				continue
			}
			// an exit test comparing (an affine form of) phi with a loop-invariant bound
			for _, ifi := range exitTests(l) {
				bo, ok := ifi.Cond.(*ssa.BinOp)
				if !ok {
					continue
				}
				for _, side := range [][2]ssa.Value{{bo.X, bo.Y}, {bo.Y, bo.X}} {
					a := affineWide(side[0])
					if a == nil || a.coef(phi) != 1 {
						continue
					}
					others := true
					for k := range a.Terms {
						if v, ok := k.(ssa.Value); ok && v != ssa.Value(phi) && !loopInvariant(l, v) {
							others = false
						}
					}
					if !others || !loopInvariant(l, side[1]) {
						continue
					}
					switch bo.Op {
					case token.LSS, token.LEQ, token.GTR, token.GEQ:
						dir := "increasing"
						if dec {
							dir = "decreasing"
						}
						return fmt.Sprintf("counted: %s is strictly %s on every back edge and compared with the loop-invariant %s", shortVal(phi), dir, shortVal(side[1])), ""
					}
				}
			}
			// (window) the growing value is the size of a Peek whose error leaves the loop
			if inc {
				if w := windowGrowth(p, l, phi); w != "" {
					return "window: " + w, ""
				}
			}
			if windowWhy != "" {
				whys = append(whys, windowWhy)
				windowWhy = ""
			}
			whys = append(whys, fmt.Sprintf("%s is monotone but no exit test compares it with a loop-invariant bound", shortVal(phi)))
		case sliceLike(phi.Type()):
			shr := true
			for _, k := range back {
				sl, ok := phi.Edges[k].(*ssa.Slice)
				if !ok || sl.X != ssa.Value(phi) || sl.Low == nil || sl.High != nil {
					shr = false
					break
				}
				if !e.ProveLE(H.Preds[k], zeroT, e.termOf(sl.Low), -1) {
					shr = false
				}
			}
			if shr {
				for _, ifi := range exitTests(l) {
					if bo, ok := ifi.Cond.(*ssa.BinOp); ok {
						for _, s := range []ssa.Value{bo.X, bo.Y} {
							if c, ok := s.(*ssa.Call); ok {
								if b, ok := c.Call.Value.(*ssa.Builtin); ok && b.Name() == "len" && c.Call.Args[0] == ssa.Value(phi) {
									return "slice: " + shortVal(phi) + " is re-sliced by a positive amount on every back edge and its length is tested", ""
								}
							}
						}
					}
				}
			}
		default:
			if _, isPtr := phi.Type().Underlying().(*types.Pointer); isPtr {
				if w := chainWalk(p, l, phi, back); w != "" {
					return "chain: " + w, ""
				}
			}
		}
	}
	// (tag queue)
	if fnName(f) == "exif2.(*ifdReader).readIfd" {
		why := tagQueueSideConditions(p, pa)
		if why == "" {
			why = tagQueueRetire(p, f, l)
		}
		if why == "" {
			return "tag queue (reviewed ranking argument): every directory header consumes input before queueing tags, queued tags never point behind the read position, one queued tag is retired per iteration — all three side conditions re-checked", ""
		} else {
			return "", "exif2.readIfd: side condition of the tag-queue ranking argument fails: " + why
		}
	}
	// (consumer)
	progBlocks := map[*ssa.BasicBlock]bool{}
	nSites := 0
	for b := range l.Blocks {
		for _, in := range b.Instrs {
			site, ok := in.(ssa.CallInstruction)
			if !ok {
				continue
			}
			if _, isDefer := in.(*ssa.Defer); isDefer {
				continue
			}
			if ok, need := pa.siteProgress(f, site); ok && need < 0 {
				progBlocks[b] = true
				nSites++
			}
		}
	}
	if nSites > 0 {
		// is there a cycle through H avoiding progress blocks?
		if progBlocks[H] {
			if loopHasErrorExit(l) {
				return fmt.Sprintf("consumer: the loop header consumes input (%d consuming sites) and the loop leaves on a reader error", nSites), ""
			}
		}
		seen := map[*ssa.BasicBlock]bool{}
		var st []*ssa.BasicBlock
		for _, s := range H.Succs {
			if l.Blocks[s] && !progBlocks[s] && !progBlocks[H] {
				if !seen[s] {
					seen[s] = true
					st = append(st, s)
				}
			}
		}
		cyc := (*ssa.BasicBlock)(nil)
		for len(st) > 0 && cyc == nil {
			b := st[len(st)-1]
			st = st[:len(st)-1]
			if b == H {
				cyc = b
				break
			}
			for _, s := range b.Succs {
				if s == H {
					cyc = b
					break
				}
				if l.Blocks[s] && !seen[s] && !progBlocks[s] {
					seen[s] = true
					st = append(st, s)
				}
			}
		}
		if cyc == nil {
			if loopHasErrorExit(l) {
				return fmt.Sprintf("consumer: every cyclic path passes one of %d calls that consume input by a provably positive amount, and the loop leaves on a reader error", nSites), ""
			}
			whys = append(whys, "every cyclic path consumes input but no exit depends on a reader error: at end of input the loop would spin")
		} else {
			whys = append(whys, fmt.Sprintf("a cyclic path reaches the back edge at %s without consuming input by a provably positive amount", p.posStr(instrPos(cyc.Instrs[len(cyc.Instrs)-1]))))
		}
	} else {
		whys = append(whys, "no induction variable with a bound and no call that provably consumes input")
	}
	return "", strings.Join(whys, "; ")
}

// loopHasErrorExit: some exit of the loop (branch leaving it, or a return inside it) is controlled by an error
// value being non-nil or a boolean produced by a library call (ok flags, validTag()).
func loopHasErrorExit(l *Loop) bool {
	for b := range l.Blocks {
		if len(b.Instrs) == 0 {
			continue
		}
		ifi, ok := b.Instrs[len(b.Instrs)-1].(*ssa.If)
		if !ok {
			continue
		}
		leaves := !l.Blocks[b.Succs[0]] || !l.Blocks[b.Succs[1]]
		if !leaves {
			continue
		}
		if condOnError(ifi.Cond, 0) {
			return true
		}
	}
	return false
}

func condOnError(v ssa.Value, d int) bool {
	if d > 4 {
		return false
	}
	switch x := v.(type) {
	case *ssa.BinOp:
		if isErrorType(x.X.Type()) || isErrorType(x.Y.Type()) {
			return true
		}
		return condOnError(x.X, d+1) || condOnError(x.Y, d+1)
	case *ssa.UnOp:
		return condOnError(x.X, d+1)
	case *ssa.Call:
		// a boolean computed by a library call from reader state (nextMarker(), validTag(), hasAttribute())
		if sc := x.Call.StaticCallee(); sc != nil && isLibFn(sc) && isBoolType(x.Type()) {
			return true
		}
	case *ssa.Extract:
		if isBoolType(x.Type()) || isErrorType(x.Type()) {
			return true
		}
	case *ssa.Phi:
		for _, e := range x.Edges {
			if condOnError(e, d+1) {
				return true
			}
		}
	}
	return false
}

// windowGrowth: phi is handed (possibly scaled/offset, coefficient > 0) to a Peek-like call in the loop and the
// loop has a return/exit dominated by that call's error being non-nil.
var windowWhy string

// peekWrapperSwallows: g wraps a Peek; "" if every return of g with a nil error is either the underlying call's own
// error passed on or a nil under `underlying err == io.EOF` (a short window at the end of the input). Anything else
// can turn bufio.ErrBufferFull — the refusal the growing-window loops rely on — into success.
func peekWrapperSwallows(p *Prog, g *ssa.Function, depth int) string {
	if g.Blocks == nil || depth > 3 {
		return "its body is not available"
	}
	var under *ssa.Call
	eachCall(g, func(site ssa.CallInstruction) {
		c, ok := site.(*ssa.Call)
		if !ok {
			return
		}
		name := ""
		if c.Call.IsInvoke() {
			name = c.Call.Method.Name()
		} else if sc := c.Call.StaticCallee(); sc != nil {
			name = sc.Name()
		}
		if name == "Peek" || name == "peek" {
			under = c
		}
	})
	if under == nil {
		return "it does not call a Peek"
	}
	if sc := under.Call.StaticCallee(); sc != nil && isRepoFn(sc) {
		if why := peekWrapperSwallows(p, sc, depth+1); why != "" {
			return why
		}
	}
	ue := tupleExtract(under, 1)
	if ue == nil {
		return "the error of the underlying Peek is dropped"
	}
	ei := g.Signature.Results().Len() - 1
	bad := ""
	eachInstr(g, func(b *ssa.BasicBlock, _ int, in ssa.Instruction) {
		ret, ok := in.(*ssa.Return)
		if !ok || bad != "" {
			return
		}
		ev, eb := spilledResult(ret.Results[ei], b)
		if ev == ssa.Value(ue) {
			return
		}
		if !isNilConst(ev) {
			// some other error value: fine as long as it is an error
			if p.E3().definitelyNonNil(ev, eb) {
				return
			}
			bad = fmt.Sprintf("the return at %s yields an error value that is not the underlying one", p.posStr(instrPos(ret)))
			return
		}
		okEOF := false
		for _, cd := range condsAt(eb) {
			bo, isBo := cd.V.(*ssa.BinOp)
			if !isBo || bo.Op != token.EQL || !cd.True {
				continue
			}
			for _, pr := range [][2]ssa.Value{{bo.X, bo.Y}, {bo.Y, bo.X}} {
				if pr[0] == ssa.Value(ue) {
					if gl := loadOfGlobal(pr[1]); gl != nil && gl.Pkg != nil && gl.Pkg.Pkg.Path() == "io" && gl.Name() == "EOF" {
						okEOF = true
					}
				}
			}
		}
		if !okEOF {
			bad = fmt.Sprintf("the return at %s reports success although the underlying Peek failed with something other than io.EOF (bufio.ErrBufferFull is swallowed)", p.posStr(instrPos(ret)))
		}
	})
	// a nil return on the path where the underlying call itself succeeded is the forwarded value (ue == nil there): the
	// wrapper returns `buf, err` unchanged on that path, which the first test accepts
	return bad
}

func windowGrowth(p *Prog, l *Loop, phi *ssa.Phi) string {
	for b := range l.Blocks {
		for _, in := range b.Instrs {
			c, ok := in.(*ssa.Call)
			if !ok {
				continue
			}
			name := ""
			if c.Call.IsInvoke() {
				name = c.Call.Method.Name()
			} else if sc := c.Call.StaticCallee(); sc != nil {
				name = sc.Name()
			}
			if name != "Peek" && name != "peek" {
				continue
			}
			args := c.Call.Args
			n := args[len(args)-1]
			a := affineWide(n)
			if a == nil || a.coef(phi) <= 0 {
				continue
			}
			// a library wrapper around Peek must pass bufio's refusal on, or the growth never ends the loop
			if sc := c.Call.StaticCallee(); sc != nil && isRepoFn(sc) {
				if why := peekWrapperSwallows(p, sc, 0); why != "" {
					windowWhy = fmt.Sprintf("%s is the growing size of %s, but %s", shortVal(phi), fnName(sc), why)
					continue
				}
			}
			errX := tupleExtract(c, 1)
			if errX == nil {
				continue
			}
			// some block in the loop... the failing edge must leave the loop: a block dominated by err != nil that is outside the loop or returns
			for _, rf := range refs(errX) {
				bo, ok := rf.(*ssa.BinOp)
				if !ok || !(isNilConst(bo.X) || isNilConst(bo.Y)) {
					continue
				}
				for _, rf2 := range refs(bo) {
					ifi, ok := rf2.(*ssa.If)
					if !ok {
						continue
					}
					fail := ifi.Block().Succs[0]
					if bo.Op == token.EQL {
						fail = ifi.Block().Succs[1]
					}
					if !l.Blocks[fail] {
						return fmt.Sprintf("%s grows on every iteration and is the size of %s, whose error leaves the loop (bufio refuses sizes beyond its buffer)", shortVal(phi), name)
					}
				}
			}
		}
	}
	return ""
}

// chainWalk: o = φ(start, o.link) with exit on o == nil, and the link field is only ever stored on freshly
// created nodes (so following it cannot cycle).
func chainWalk(p *Prog, l *Loop, phi *ssa.Phi, back []int) string {
	var field int = -1
	var named *types.Named
	for _, k := range back {
		ld, ok := phi.Edges[k].(*ssa.UnOp)
		if !ok || ld.Op != token.MUL {
			return ""
		}
		fa, ok := ld.X.(*ssa.FieldAddr)
		if !ok || fa.X != ssa.Value(phi) {
			return ""
		}
		field, named = fa.Field, namedOfPtr(fa.X.Type())
	}
	if named == nil {
		return ""
	}
	nilExit := false
	for _, ifi := range exitTests(l) {
		if bo, ok := ifi.Cond.(*ssa.BinOp); ok && (bo.X == ssa.Value(phi) && isNilConst(bo.Y) || bo.Y == ssa.Value(phi) && isNilConst(bo.X)) {
			nilExit = true
		}
	}
	if !nilExit {
		return ""
	}
	if why := linkOnlyOnFreshNodes(p, named, field); why != "" {
		return ""
	}
	return fmt.Sprintf("%s follows %s.%s until nil; that link is only ever set on freshly created nodes, so the chain is acyclic", shortVal(phi), named.Obj().Name(), fieldName(types.NewPointer(named), field))
}

// linkOnlyOnFreshNodes: every store to named.field in the library writes into a local (just created) struct.
func linkOnlyOnFreshNodes(p *Prog, named *types.Named, field int) string {
	why := ""
	n := 0
	for _, f := range p.AllLibFns() {
		eachInstr(f, func(_ *ssa.BasicBlock, _ int, in ssa.Instruction) {
			st, ok := in.(*ssa.Store)
			if !ok {
				return
			}
			fa, ok := st.Addr.(*ssa.FieldAddr)
			if !ok || fa.Field != field || namedOfPtr(fa.X.Type()) != named {
				return
			}
			n++
			if _, fresh := fa.X.(*ssa.Alloc); !fresh {
				why = "link field stored on an existing node in " + fnName(f)
			}
		})
	}
	if n == 0 {
		return "no store to the link field found"
	}
	return why
}

// tagQueueSideConditions: (1) in addTagBuffer every store into buffer.tag is dominated by the false edge of
// `t.ValueOffset < ir.po`; (2) readIfdHeader consumes input (a progress site) before its first addTagBuffer call.
func tagQueueSideConditions(p *Prog, pa *progAnalysis) string {
	add := p.Func("exif2", "*ifdReader", "addTagBuffer")
	hdr := p.Func("exif2", "*ifdReader", "readIfdHeader")
	if add == nil || hdr == nil {
		return "anchors addTagBuffer/readIfdHeader not resolved"
	}
	why := ""
	nStores := 0
	eachInstr(add, func(b *ssa.BasicBlock, _ int, in ssa.Instruction) {
		st, ok := in.(*ssa.Store)
		if !ok {
			return
		}
		ia, ok := st.Addr.(*ssa.IndexAddr)
		if !ok {
			return
		}
		fa, ok := ia.X.(*ssa.FieldAddr)
		if !ok || fieldName(fa.X.Type(), fa.Field) != "tag" {
			return
		}
		nStores++
		guarded := false
		for _, cd := range condsAt(b) {
			bo, ok := cd.V.(*ssa.BinOp)
			if !ok || cd.True || bo.Op != token.LSS {
				continue
			}
			if strings.Contains(shortVal(bo.X), "ValueOffset") && strings.HasSuffix(shortVal(bo.Y), ".po") {
				guarded = true
			}
		}
		if !guarded {
			why = "a tag is queued without the check that its offset is not behind the read position (" + p.posStr(instrPos(in)) + ")"
		}
	})
	// copy() into the tag array also writes it; those are shifts of already queued tags and are in the same guarded region
	if nStores == 0 {
		return "no store into the tag queue found in addTagBuffer"
	}
	if why != "" {
		return why
	}
	// (2) every call of addTagBuffer in readIfdHeader is dominated by a progress site
	var progBlocks []*ssa.BasicBlock
	eachCall(hdr, func(site ssa.CallInstruction) {
		if ok, need := pa.siteProgress(hdr, site); ok && need < 0 {
			progBlocks = append(progBlocks, site.Block())
		}
	})
	eachCall(hdr, func(site ssa.CallInstruction) {
		if sc := site.Common().StaticCallee(); sc != add {
			return
		}
		dom := false
		for _, pb := range progBlocks {
			if pb.Dominates(site.Block()) {
				dom = true
			}
		}
		if !dom {
			why = "readIfdHeader queues a tag without having consumed input first"
		}
	})
	return why
}

// ---- RECUR ---------------------------------------------------------------------------------------

func ruleRecur(p *Prog, r *Report, fs []*ssa.Function) {
	in := map[*ssa.Function]bool{}
	for _, f := range fs {
		in[f] = true
	}
	cg := p.CG()
	// Tarjan SCC over library functions
	index := map[*ssa.Function]int{}
	low := map[*ssa.Function]int{}
	on := map[*ssa.Function]bool{}
	var stack []*ssa.Function
	idx := 0
	var sccs [][]*ssa.Function
	var strong func(v *ssa.Function)
	succs := func(v *ssa.Function) []*ssa.Function {
		var out []*ssa.Function
		if n := cg.Nodes[v]; n != nil {
			for _, e := range n.Out {
				if in[e.Callee.Func] {
					out = append(out, e.Callee.Func)
				}
			}
		}
		return out
	}
	strong = func(v *ssa.Function) {
		index[v], low[v] = idx, idx
		idx++
		stack = append(stack, v)
		on[v] = true
		for _, w := range succs(v) {
			if _, seen := index[w]; !seen {
				strong(w)
				if low[w] < low[v] {
					low[v] = low[w]
				}
			} else if on[w] && index[w] < low[v] {
				low[v] = index[w]
			}
		}
		if low[v] == index[v] {
			var comp []*ssa.Function
			for {
				w := stack[len(stack)-1]
				stack = stack[:len(stack)-1]
				on[w] = false
				comp = append(comp, w)
				if w == v {
					break
				}
			}
			self := false
			for _, w := range succs(v) {
				if w == v {
					self = true
				}
			}
			if len(comp) > 1 || self {
				sccs = append(sccs, comp)
			}
		}
	}
	for _, f := range fs {
		if _, seen := index[f]; !seen {
			strong(f)
		}
	}
	for _, comp := range sccs {
		sortFns(comp)
		var names []string
		for _, f := range comp {
			names = append(names, fnName(f))
		}
		key := "cycle {" + strings.Join(names, ", ") + "}"
		at := p.posStr(comp[0].Pos())
		inComp := map[*ssa.Function]bool{}
		for _, f := range comp {
			inComp[f] = true
		}
		// every recursive call site must be (a) a parent-chain delegation or (b) depth-guarded
		bad := ""
		kind := map[string]bool{}
		for _, f := range comp {
			eachCall(f, func(site ssa.CallInstruction) {
				rec := false
				for _, g := range p.Callees(site) {
					if inComp[g] {
						rec = true
					}
				}
				if !rec {
					return
				}
				if w := constantArgCall(p, site); w != "" {
					kind["call on a constant that folds to a value without recursing ("+w+")"] = true
					return
				}
				if w := chainDelegation(p, f, site); w != "" {
					kind["parent-chain delegation ("+w+")"] = true
					return
				}
				if w := depthGuarded(p, f, site); w != "" {
					kind["depth-counted ("+w+")"] = true
					return
				}
				bad = fmt.Sprintf("recursive call in %s at %s is neither a delegation to a parent link nor guarded by a depth counter: stack depth follows the input", fnName(f), p.posStr(instrPos(site)))
			})
		}
		if bad != "" {
			r.Bad("RECUR", key, at, bad)
		} else {
			var ks []string
			for k := range kind {
				ks = append(ks, k)
			}
			sort.Strings(ks)
			r.OK("RECUR", key, at, strings.Join(ks, "; "))
		}
	}
	r.Extra("recursive_cycles", len(sccs))
}

// constantArgCall: every argument of the call is a constant and constant folding of the callee on them ends in a
// value (the fallback NullIFD.String() of a stringer): the recursion has depth one.
func constantArgCall(p *Prog, site ssa.CallInstruction) string {
	c := site.Common()
	sc := c.StaticCallee()
	if sc == nil || len(c.Args) == 0 {
		return ""
	}
	var args []cval
	for _, a := range c.Args {
		k, ok := constInt(a)
		if !ok {
			return ""
		}
		args = append(args, cval{kind: "int", i: k})
	}
	fd := &folder{p: p}
	res := fd.fold(sc, args)
	if res.panics != "" || res.undecided != "" {
		return ""
	}
	return fmt.Sprintf("%s(%d) = %s", sc.Name(), args[0].i, res.val)
}

// chainDelegation: the recursive call's receiver is the load of a link field of the caller's receiver, under a
// non-nil test, and that link is only set on fresh nodes.
func chainDelegation(p *Prog, f *ssa.Function, site ssa.CallInstruction) string {
	c := site.Common()
	if c.IsInvoke() || len(c.Args) == 0 || len(f.Params) == 0 {
		return ""
	}
	ld, ok := c.Args[0].(*ssa.UnOp)
	if !ok || ld.Op != token.MUL {
		return ""
	}
	fa, ok := ld.X.(*ssa.FieldAddr)
	if !ok || fa.X != ssa.Value(f.Params[0]) {
		return ""
	}
	named := namedOfPtr(fa.X.Type())
	if named == nil || linkOnlyOnFreshNodes(p, named, fa.Field) != "" {
		return ""
	}
	return named.Obj().Name() + "." + fieldName(fa.X.Type(), fa.Field)
}

// depthGuarded: the call is dominated by the false edge of `x.F >= K` (K constant) and by a store x.F = x.F + 1.
func depthGuarded(p *Prog, f *ssa.Function, site ssa.CallInstruction) string {
	for _, cd := range condsAt(site.Block()) {
		bo, ok := cd.V.(*ssa.BinOp)
		if !ok || cd.True || bo.Op != token.GEQ {
			continue
		}
		k, ok := constInt(bo.Y)
		if !ok || k <= 0 || k > 100000 {
			continue
		}
		ld, ok := bo.X.(*ssa.UnOp)
		if !ok || ld.Op != token.MUL {
			continue
		}
		fa, ok := ld.X.(*ssa.FieldAddr)
		if !ok {
			continue
		}
		// an increment of the same field dominating the call
		inc := false
		eachInstr(f, func(b *ssa.BasicBlock, _ int, in ssa.Instruction) {
			st, ok := in.(*ssa.Store)
			if !ok {
				return
			}
			fa2, ok := st.Addr.(*ssa.FieldAddr)
			if !ok || fa2.Field != fa.Field || !sameAddrStrict(fa2.X, fa.X) {
				return
			}
			add, ok := st.Val.(*ssa.BinOp)
			if !ok || add.Op != token.ADD {
				return
			}
			if d, ok := constInt(add.Y); ok && d == 1 && (b.Dominates(site.Block())) {
				inc = true
			}
		})
		if inc {
			return fmt.Sprintf("%s < %d", fieldName(fa.X.Type(), fa.Field), k)
		}
	}
	return ""
}

// ---- SEEKFWD -------------------------------------------------------------------------------------

func ruleSeekFwd(p *Prog, r *Report, fs []*ssa.Function) {
	e := p.E3()
	for _, f := range fs {
		loops := findLoops(f)
		eachCall(f, func(site ssa.CallInstruction) {
			c := site.Common()
			name := ""
			if c.IsInvoke() {
				name = c.Method.Name()
			} else if sc := c.StaticCallee(); sc != nil && sc.Signature.Recv() != nil {
				name = sc.Name()
			}
			if name != "Seek" {
				return
			}
			args := c.Args
			if !c.IsInvoke() {
				args = args[1:]
			}
			if len(args) != 2 {
				return
			}
			key := fmt.Sprintf("%s | Seek(%s, %s)", fnName(f), shortVal(args[0]), shortVal(args[1]))
			at := p.posStr(instrPos(site))
			inLoop := false
			for _, l := range loops {
				if l.Blocks[site.Block()] {
					inLoop = true
				}
			}
			wh, okW := constInt(args[1])
			off, okO := constInt(args[0])
			switch {
			case okW && wh == 1 && okO && off == 0:
				r.OK("SEEKFWD", key, at, "position query")
			case !inLoop:
				r.OK("SEEKFWD", key, at, "not on a cyclic path: executed at most once per call of the function")
			case okW && wh == 1 && e.ProveLE(site.Block(), zeroT, e.termOf(args[0]), 0):
				r.OK("SEEKFWD", key, at, "relative seek by a provably non-negative amount")
			default:
				r.Bad("SEEKFWD", key, at, "a seek inside a loop that may move backwards (or to an absolute position): the same input can be read again without bound")
			}
		})
	}
}

// scanIndexPositive: v is the index at which a scan loop `for i = 0; i < K; i++ { if P(buf[i:]) { break } }`
// stopped, and the use is dominated by the false edge of P(buf) for the same predicate P (argument-pure) on the
// same buffer: at i = 0 the loop would test P(buf[0:]) = P(buf), which is false on this path, so the scan cannot
// stop at 0; and K ≥ 1. Hence v ≥ 1.
func scanIndexPositive(e *E3, blk *ssa.BasicBlock, v ssa.Value) bool {
	v = stripIntConv(v)
	// v is the scan loop's header phi (used after the loop) or a phi merging it
	var hdr *ssa.Phi
	switch x := v.(type) {
	case *ssa.Phi:
		hdr = x
	default:
		return dbgFalse(1)
	}
	if !phiHasBackEdge(hdr) {
		// exit-merge phi: every edge must be the same header phi
		var h *ssa.Phi
		for _, ed := range hdr.Edges {
			ph, ok := ed.(*ssa.Phi)
			if !ok || (h != nil && ph != h) {
				return dbgFalse(2)
			}
			h = ph
		}
		hdr = h
	}
	if hdr == nil || !phiHasBackEdge(hdr) {
		return dbgFalse(3)
	}
	H := hdr.Block()
	// init 0, step +1
	for k, pr := range H.Preds {
		if H.Dominates(pr) {
			bo, ok := hdr.Edges[k].(*ssa.BinOp)
			if !ok || bo.Op != token.ADD || bo.X != ssa.Value(hdr) {
				return dbgFalse(4)
			}
			if c, ok := constInt(bo.Y); !ok || c != 1 {
				return dbgFalse(5)
			}
		} else if c, ok := constInt(hdr.Edges[k]); !ok || c != 0 {
			return dbgFalse(6)
		}
	}
	// exits of the scan loop: header test i < K (K ≥ 1 const) and a break on P(buf[i:])
	var pred *ssa.Function
	var scanBase ssa.Value
	okBound := false
	for _, l := range findLoops(H.Parent()) {
		if l.Head != H {
			continue
		}
		for _, ifi := range exitTests(l) {
			switch c := ifi.Cond.(type) {
			case *ssa.BinOp:
				if c.X == ssa.Value(hdr) && c.Op == token.LSS {
					if k, ok := constInt(c.Y); ok && k >= 1 {
						okBound = true
						continue
					}
				}
				return dbgFalse(7)
			case *ssa.Call:
				sc := c.Call.StaticCallee()
				if sc == nil || len(c.Call.Args) != 1 || !readOnlyFn(e, sc, 0) {
					return dbgFalse(8)
				}
				sl, ok := c.Call.Args[0].(*ssa.Slice)
				if !ok || sl.Low != ssa.Value(hdr) || sl.High != nil {
					return dbgFalse(9)
				}
				// leaving on the true edge
				if l.Blocks[ifi.Block().Succs[0]] {
					return dbgFalse(10)
				}
				pred, scanBase = sc, sl.X
			default:
				return dbgFalse(11)
			}
		}
	}
	if !okBound || pred == nil {
		return dbgFalse(12)
	}
	// the use is dominated by the false edge of pred(base) with the same buffer value
	for _, cd := range condsAt(blk) {
		c, ok := cd.V.(*ssa.Call)
		neg := false
		if !ok {
			if u, isU := cd.V.(*ssa.UnOp); isU && u.Op == token.NOT {
				c, ok = u.X.(*ssa.Call)
				neg = true
			}
		}
		if !ok || c.Call.StaticCallee() != pred || len(c.Call.Args) != 1 {
			continue
		}
		if cd.True != neg {
			continue // need P(base) to be false on this path
		}
		same := e.canonAny(c.Call.Args[0]) == e.canonAny(scanBase)
		if !same {
			// two loads of the same cell with nothing but read-only calls and local stores in between (quietBetween)
			l1, ok1 := c.Call.Args[0].(*ssa.UnOp)
			l2, ok2 := scanBase.(*ssa.UnOp)
			if ok1 && ok2 && l1.Op == token.MUL && l2.Op == token.MUL && sameAddrStrict(l1.X, l2.X) {
				same = true
			}
		}
		if same && quietBetween(e, cd.At, H) {
			return true
		}
		if os.Getenv("IMVERIF_DEBUG") != "" {
			fmt.Fprintf(os.Stderr, "scanIndexPositive: bases differ: %s vs %s\n", shortVal(e.canonAny(c.Call.Args[0])), shortVal(e.canonAny(scanBase)))
		}
	}
	return dbgFalse(13)
}

func dbgFalse(n int) bool {
	if os.Getenv("IMVERIF_DEBUG") != "" {
		fmt.Fprintf(os.Stderr, "scanIndexPositive: exit %d\n", n)
	}
	return false
}

// readOnlyFn: f has no effects and reads memory only through its parameters and immutable tables: two calls
// with the same arguments give the same result as long as nothing writes the memory in between.
func readOnlyFn(e *E3, f *ssa.Function, depth int) bool {
	if f == nil || f.Blocks == nil || !isRepoFn(f) || depth > 4 {
		return false
	}
	ok := true
	eachInstr(f, func(_ *ssa.BasicBlock, _ int, in ssa.Instruction) {
		switch x := in.(type) {
		case *ssa.Store:
			if _, isA := x.Addr.(*ssa.Alloc); !isA {
				ok = false
			}
		case *ssa.MapUpdate, *ssa.Send, *ssa.Go, *ssa.Defer, *ssa.Panic:
			ok = false
		case *ssa.UnOp:
			if x.Op == token.MUL {
				if g := globalOf(x.X); g != nil {
					if _, imm := e.tables.ElemRange(g); !imm {
						if _, imm2 := e.tables.Len(g); !imm2 {
							ok = false
						}
					}
				}
			}
		case ssa.CallInstruction:
			c := x.Common()
			if b, isB := c.Value.(*ssa.Builtin); isB {
				if b.Name() != "len" && b.Name() != "cap" {
					ok = false
				}
				return
			}
			if sc := c.StaticCallee(); sc == nil || !readOnlyFn(e, sc, depth+1) {
				ok = false
			}
		}
	})
	return ok
}

// quietBetween: from the block that tested the predicate to the scan loop (and inside it) nothing can write
// memory: only calls of read-only functions, no element stores.
func quietBetween(e *E3, from, loopHead *ssa.BasicBlock) bool {
	f := from.Parent()
	var loop *Loop
	for _, l := range findLoops(f) {
		if l.Head == loopHead {
			loop = l
		}
	}
	if loop == nil {
		return false
	}
	ok := true
	check := func(b *ssa.BasicBlock, after ssa.Instruction) {
		started := after == nil
		for _, in := range b.Instrs {
			if !started {
				if in == after {
					started = true
				}
				continue
			}
			switch x := in.(type) {
			case *ssa.Store:
				if _, isLocal := x.Addr.(*ssa.Alloc); !isLocal {
					ok = false
				}
			case ssa.CallInstruction:
				c := x.Common()
				if b, isB := c.Value.(*ssa.Builtin); isB && (b.Name() == "len" || b.Name() == "cap") {
					continue
				}
				if sc := c.StaticCallee(); sc == nil || !readOnlyFn(e, sc, 0) {
					ok = false
				}
			}
		}
	}
	for _, b := range f.Blocks {
		if loop.Blocks[b] {
			check(b, nil)
			continue
		}
		if b != from && from.Dominates(b) && b.Dominates(loopHead) {
			check(b, nil)
		}
	}
	return ok
}

// spilledResult: with a deferred call the named results live in allocs and the Return loads them; find the value
// last stored on the straight-line path into the returning block.
func spilledResult(v ssa.Value, b *ssa.BasicBlock) (ssa.Value, *ssa.BasicBlock) {
	ld, ok := v.(*ssa.UnOp)
	if !ok || ld.Op != token.MUL {
		return v, b
	}
	a, ok := ld.X.(*ssa.Alloc)
	if !ok {
		return v, b
	}
	cur := b
	for hops := 0; hops < 4 && cur != nil; hops++ {
		for i := len(cur.Instrs) - 1; i >= 0; i-- {
			if st, ok := cur.Instrs[i].(*ssa.Store); ok && st.Addr == ssa.Value(a) {
				return st.Val, cur
			}
			if _, isCall := cur.Instrs[i].(*ssa.Call); isCall && hops > 0 {
				// a call in a predecessor block could have stored through a closure: stop
			}
		}
		if len(cur.Preds) != 1 {
			return v, b
		}
		cur = cur.Preds[0]
	}
	return v, b
}

// read0BufArg: "" when v is the Read method's own buffer parameter or a prefix of it whose length is proved positive.
func read0BufArg(e *E3, f *ssa.Function, v ssa.Value, depth int) string {
	if v == nil || depth > 4 {
		return "an untraced buffer"
	}
	if v == ssa.Value(f.Params[1]) {
		return ""
	}
	switch t := v.(type) {
	case *ssa.Slice:
		if w := read0BufArg(e, f, t.X, depth+1); w != "" {
			return w
		}
		if t.Low != nil {
			if k, ok := constInt(t.Low); !ok || k != 0 {
				return "a sub-slice of the caller's buffer with a moving start"
			}
		}
		if t.High == nil {
			return ""
		}
		if e.ProveLE(t.Block(), zeroT, e.termOf(t.High), -1) {
			return ""
		}
		return "a prefix of the caller's buffer whose length (" + shortVal(t.High) + ") is not proved positive"
	case *ssa.Phi:
		for _, ed := range t.Edges {
			if w := read0BufArg(e, f, ed, depth+1); w != "" {
				return w
			}
		}
		return ""
	}
	return "a buffer other than the caller's"
}

// ---- READ0: library readers never report "nothing read, no error" -----------------------------------------------

// ruleRead0: io.ReadAll, io.Copy and every fill loop spin for ever on a reader that keeps returning (0, nil) for a
// non-empty buffer. Every return of a library Read method must therefore be one of: a non-nil error; the count and
// error of an underlying Read passed on together; a count proved positive; or (0, nil) under len(p) == 0 of the
// caller's own buffer (not of a truncated copy of it).
func ruleRead0(p *Prog, r *Report, fs []*ssa.Function) {
	e := p.E3()
	for _, f := range fs {
		if f.Name() != "Read" || f.Signature.Recv() == nil || len(f.Params) != 2 || f.Signature.Results().Len() != 2 {
			continue
		}
		if _, ok := f.Params[1].Type().Underlying().(*types.Slice); !ok || !isErrorType(f.Signature.Results().At(1).Type()) {
			continue
		}
		key := fnName(f) + " | never returns (0, nil) for a non-empty buffer"
		bad := ""
		nRet := 0
		eachInstr(f, func(b *ssa.BasicBlock, _ int, in ssa.Instruction) {
			ret, ok := in.(*ssa.Return)
			if !ok || len(ret.Results) != 2 {
				return
			}
			nRet++
			nv, nb := spilledResult(ret.Results[0], b)
			ev, eb := spilledResult(ret.Results[1], b)
			if e.definitelyNonNil(ev, eb) {
				return
			}
			// forwarded pair
			if xn, ok := nv.(*ssa.Extract); ok {
				if xe, ok := ev.(*ssa.Extract); ok && xn.Tuple == xe.Tuple && xn.Index == 0 && xe.Index == 1 {
					if c, ok := xn.Tuple.(*ssa.Call); ok {
						nm := ""
						if c.Call.IsInvoke() {
							nm = c.Call.Method.Name()
						} else if sc := c.Call.StaticCallee(); sc != nil {
							nm = sc.Name()
						}
						if nm == "Read" {
							// the buffer handed on must be the caller's own, or a prefix of it of provably positive length:
							// a Read of an empty prefix reports (0, nil) whatever the caller's buffer held
							args := c.Call.Args
							var bufArg ssa.Value
							if len(args) > 0 {
								bufArg = args[len(args)-1]
							}
							if why := read0BufArg(e, f, bufArg, 0); why == "" {
								return
							} else {
								bad = fmt.Sprintf("the return at %s forwards the result of a Read into %s: a zero count with a nil error reaches the caller although its buffer is not empty, and io.ReadAll and every fill loop then spin", p.posStr(instrPos(ret)), why)
								return
							}
						}
					}
				}
			}
			if e.ProveLE(nb, zeroT, e.termOf(nv), -1) {
				return
			}
			// (0, nil) only for an empty buffer of the caller
			for _, cd := range condsAt(b) {
				bo, ok := cd.V.(*ssa.BinOp)
				if !ok || !cd.True || bo.Op != token.EQL {
					continue
				}
				for _, pr := range [][2]ssa.Value{{bo.X, bo.Y}, {bo.Y, bo.X}} {
					if k, ok := constInt(pr[1]); ok && k == 0 {
						if c, ok := pr[0].(*ssa.Call); ok {
							if bi, ok := c.Call.Value.(*ssa.Builtin); ok && bi.Name() == "len" && c.Call.Args[0] == ssa.Value(f.Params[1]) {
								return
							}
						}
					}
				}
			}
			bad = fmt.Sprintf("the return at %s can report a zero count with a nil error for a non-empty buffer: io.ReadAll and every fill loop then spin without consuming input", p.posStr(instrPos(ret)))
		})
		if nRet == 0 {
			continue
		}
		if bad != "" {
			r.Bad("READ0", key, p.posStr(f.Pos()), bad)
		} else {
			r.OK("READ0", key, p.posStr(f.Pos()), fmt.Sprintf("%d returns: error, forwarded (n, err) of the underlying Read, positive count, or empty caller buffer", nRet))
		}
	}
}
