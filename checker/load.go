package main

// E1 loader and E2 ssa + call graph.

import (
	"fmt"
	"go/ast"
	"go/token"
	"go/types"
	"os"
	"sort"
	"strings"

	"golang.org/x/tools/go/callgraph"
	"golang.org/x/tools/go/callgraph/cha"
	"golang.org/x/tools/go/callgraph/vta"
	"golang.org/x/tools/go/packages"
	"golang.org/x/tools/go/ssa"
	"golang.org/x/tools/go/ssa/ssautil"
)

const modPath = "github.com/evanoberholster/imagemeta"

// Prog is the loaded, type-checked repository.
type Prog struct {
	Repo    string
	Fset    *token.FileSet
	Initial []*packages.Package          // packages of the module (library + tools)
	ByPath  map[string]*packages.Package // all packages incl. deps
	Lib     []*packages.Package          // library packages (in scope)

	SSA     *ssa.Program
	cg      *callgraph.Graph
	allFns  map[*ssa.Function]bool
	fnByKey map[string]*ssa.Function
	eff     *Effects
	e3      *E3
	tables  *Tables
}

// out-of-scope main packages
func isToolPkg(p *packages.Package) bool { return p.Name == "main" }

func relPkg(path string) string {
	if path == modPath {
		return "imagemeta"
	}
	return strings.TrimPrefix(path, modPath+"/")
}

func isRepoPath(path string) bool {
	return path == modPath || strings.HasPrefix(path, modPath+"/")
}

func loadProg(repo string, needSSA bool) (*Prog, error) {
	env := append(os.Environ(),
		"GOFLAGS=-mod=mod", "GOPROXY=off", "GOSUMDB=off", "GOTOOLCHAIN=local",
		"GOWORK=off", "GOOS=linux", "GOARCH=amd64", "CGO_ENABLED=0")
	mode := packages.NeedName | packages.NeedFiles | packages.NeedCompiledGoFiles |
		packages.NeedImports | packages.NeedDeps | packages.NeedTypes | packages.NeedSyntax |
		packages.NeedTypesInfo | packages.NeedTypesSizes | packages.NeedModule
	cfg := &packages.Config{Mode: mode, Dir: repo, Env: env, Tests: false, Fset: token.NewFileSet(),
		ParseFile: nil}
	initial, err := packages.Load(cfg, "./...")
	if err != nil {
		return nil, fmt.Errorf("load: %v", err)
	}
	p := &Prog{Repo: repo, Fset: cfg.Fset, ByPath: map[string]*packages.Package{}}
	var errs []string
	packages.Visit(initial, nil, func(pk *packages.Package) {
		p.ByPath[pk.PkgPath] = pk
		for _, e := range pk.Errors {
			errs = append(errs, e.Error())
		}
	})
	if len(errs) > 0 {
		return nil, fmt.Errorf("type/load errors: %s", strings.Join(errs, "; "))
	}
	for _, pk := range initial {
		if !isRepoPath(pk.PkgPath) {
			continue
		}
		p.Initial = append(p.Initial, pk)
		if !isToolPkg(pk) {
			p.Lib = append(p.Lib, pk)
		}
	}
	sort.Slice(p.Lib, func(i, j int) bool { return p.Lib[i].PkgPath < p.Lib[j].PkgPath })
	if len(p.Initial) < 20 {
		return nil, fmt.Errorf("only %d packages loaded from %s (floor 20)", len(p.Initial), repo)
	}
	if needSSA {
		prog, _ := ssautil.AllPackages(initial, ssa.InstantiateGenerics)
		prog.Build()
		p.SSA = prog
	}
	return p, nil
}

// CG returns the VTA call graph (built lazily).
func (p *Prog) CG() *callgraph.Graph {
	if p.cg == nil {
		p.allFns = ssautil.AllFunctions(p.SSA)
		p.cg = vta.CallGraph(p.allFns, cha.CallGraph(p.SSA))
		p.cg.DeleteSyntheticNodes()
	}
	return p.cg
}

func (p *Prog) AllFns() map[*ssa.Function]bool {
	p.CG()
	return p.allFns
}

// LibPkg returns the library package with module-relative path rel ("" or "imagemeta" = root).
func (p *Prog) LibPkg(rel string) *packages.Package {
	path := modPath
	if rel != "" && rel != "imagemeta" {
		path = modPath + "/" + rel
	}
	return p.ByPath[path]
}

func (p *Prog) SSAPkg(rel string) *ssa.Package {
	pk := p.LibPkg(rel)
	if pk == nil {
		return nil
	}
	return p.SSA.Package(pk.Types)
}

// Func resolves "rel/pkg.Name" or "rel/pkg.(T).Name" / "rel/pkg.(*T).Name" to an SSA function.
func (p *Prog) Func(rel, recv, name string) *ssa.Function {
	sp := p.SSAPkg(rel)
	if sp == nil {
		return nil
	}
	if recv == "" {
		return sp.Func(name)
	}
	ptr := strings.HasPrefix(recv, "*")
	tn := strings.TrimPrefix(recv, "*")
	obj := sp.Pkg.Scope().Lookup(tn)
	if obj == nil {
		return nil
	}
	var t types.Type = obj.Type()
	if ptr {
		t = types.NewPointer(t)
	}
	sel := p.SSA.MethodSets.MethodSet(t).Lookup(sp.Pkg, name)
	if sel == nil {
		return nil
	}
	return p.SSA.MethodValue(sel)
}

// fnName gives the stable, position-free name of a function: pkg.(Recv).Name[$n].
func fnName(f *ssa.Function) string {
	if f == nil {
		return "<nil>"
	}
	if f.Parent() != nil {
		// anonymous function: parent + ordinal
		par := f.Parent()
		idx := 0
		for i, a := range par.AnonFuncs {
			if a == f {
				idx = i + 1
			}
		}
		return fmt.Sprintf("%s$%d", fnName(par), idx)
	}
	pk := ""
	if f.Pkg != nil {
		pk = relPkg(f.Pkg.Pkg.Path())
	} else if f.Object() != nil && f.Object().Pkg() != nil {
		pk = relPkg(f.Object().Pkg().Path())
	}
	if recv := f.Signature.Recv(); recv != nil {
		t := recv.Type()
		star := ""
		if pt, ok := t.(*types.Pointer); ok {
			t = pt.Elem()
			star = "*"
		}
		tn := t.String()
		if n, ok := t.(*types.Named); ok {
			tn = n.Obj().Name()
			if n.Obj().Pkg() != nil {
				pk = relPkg(n.Obj().Pkg().Path())
			}
		}
		return fmt.Sprintf("%s.(%s%s).%s", pk, star, tn, f.Name())
	}
	return pk + "." + f.Name()
}

func isRepoFn(f *ssa.Function) bool {
	if f == nil {
		return false
	}
	for f.Parent() != nil {
		f = f.Parent()
	}
	if f.Pkg != nil {
		return isRepoPath(f.Pkg.Pkg.Path())
	}
	if o := f.Object(); o != nil && o.Pkg() != nil {
		return isRepoPath(o.Pkg().Path())
	}
	if f.Origin() != nil {
		return isRepoFn(f.Origin())
	}
	return false
}

func isLibFn(f *ssa.Function) bool {
	if !isRepoFn(f) {
		return false
	}
	g := f
	for g.Parent() != nil {
		g = g.Parent()
	}
	if g.Pkg != nil && g.Pkg.Pkg.Name() == "main" {
		return false
	}
	return true
}

// posStr gives file:line:col relative to the repo root.
func (p *Prog) posStr(pos token.Pos) string {
	if !pos.IsValid() {
		return "-"
	}
	ps := p.Fset.Position(pos)
	fn := ps.Filename
	if strings.HasPrefix(fn, p.Repo+"/") {
		fn = fn[len(p.Repo)+1:]
	}
	return fmt.Sprintf("%s:%d:%d", fn, ps.Line, ps.Column)
}

// instrPos finds a usable position for an instruction (walks operands if NoPos).
func instrPos(in ssa.Instruction) token.Pos {
	if in.Pos().IsValid() {
		return in.Pos()
	}
	var ops []*ssa.Value
	for _, op := range in.Operands(ops) {
		if *op != nil && (*op).Pos().IsValid() {
			return (*op).Pos()
		}
	}
	if in.Parent() != nil {
		return in.Parent().Pos()
	}
	return token.NoPos
}

// Reach computes the set of functions reachable from roots in the call graph.
// Every root must be non-nil.
func (p *Prog) Reach(roots []*ssa.Function) map[*ssa.Function]bool {
	cg := p.CG()
	seen := map[*ssa.Function]bool{}
	var stack []*ssa.Function
	push := func(f *ssa.Function) {
		if f != nil && !seen[f] {
			seen[f] = true
			stack = append(stack, f)
		}
	}
	for _, r := range roots {
		push(r)
	}
	for len(stack) > 0 {
		f := stack[len(stack)-1]
		stack = stack[:len(stack)-1]
		if n := cg.Nodes[f]; n != nil {
			for _, e := range n.Out {
				push(e.Callee.Func)
			}
		}
		// anonymous functions defined here are conservatively reachable (closures, defers)
		for _, a := range f.AnonFuncs {
			push(a)
		}
	}
	return seen
}

// Callees returns the call-graph callees of a call site.
func (p *Prog) Callees(site ssa.CallInstruction) []*ssa.Function {
	if c := site.Common().StaticCallee(); c != nil {
		return []*ssa.Function{c}
	}
	cg := p.CG()
	n := cg.Nodes[site.Parent()]
	var out []*ssa.Function
	if n == nil {
		return nil
	}
	for _, e := range n.Out {
		if e.Site == site {
			out = append(out, e.Callee.Func)
		}
	}
	return out
}

// Callers returns the call sites that call f.
func (p *Prog) Callers(f *ssa.Function) []ssa.CallInstruction {
	n := p.CG().Nodes[f]
	if n == nil {
		return nil
	}
	var out []ssa.CallInstruction
	for _, e := range n.In {
		if e.Site != nil {
			out = append(out, e.Site)
		}
	}
	return out
}

// ---- entry point sets -------------------------------------------------------

type epSpec struct{ rel, recv, name string }

var decEntrySpecs = []epSpec{
	{"", "", "Decode"}, {"", "", "DecodeTiff"}, {"", "", "DecodeCR2"}, {"", "", "DecodeHeif"},
	{"", "", "DecodeJPEG"}, {"", "", "DecodePng"}, {"", "", "DecodeCR3"}, {"", "", "PreviewCR3"},
	{"exif2", "", "Parse"}, {"exif2", "", "NewIfdReader"},
	{"exif2", "*ifdReader", "DecodeTiff"}, {"exif2", "*ifdReader", "DecodeJPEGIfd"}, {"exif2", "*ifdReader", "DecodeIfd"},
	{"exif2", "*ifdReader", "Close"}, {"exif2", "*ifdReader", "ResetReader"},
	{"jpeg", "", "ScanJPEG"}, {"tiff", "", "ScanTiffHeader"}, {"png", "", "ScanPngHeader"},
	{"isobmff", "", "NewReader"}, {"isobmff", "*Reader", "ReadFTYP"}, {"isobmff", "*Reader", "ReadMetadata"}, {"isobmff", "*Reader", "Close"},
	{"xmp", "", "ParseXmp"},
	{"imagetype", "", "Scan"}, {"imagetype", "", "ScanBuf"}, {"imagetype", "", "ReadAt"}, {"imagetype", "", "Buf"},
	{"preview", "*previewReader", "RenderPreview"}, {"preview", "", "NewPreviewReader"},
}

var hashEntrySpecs = []epSpec{
	{"imagehash", "", "NewPHash64"}, {"imagehash", "", "NewPHash64Alt"},
	{"imagehash", "", "NewPHash256"}, {"imagehash", "", "NewPHash256Alt"},
	{"imagehash", "PHash64", "Distance"}, {"imagehash", "PHash256", "Distance"},
}

func (p *Prog) resolve(specs []epSpec) ([]*ssa.Function, error) {
	var out []*ssa.Function
	for _, s := range specs {
		f := p.Func(s.rel, s.recv, s.name)
		if f == nil {
			return nil, fmt.Errorf("unresolved anchor: entry point %s.(%s).%s", s.rel, s.recv, s.name)
		}
		out = append(out, f)
	}
	return out, nil
}

func (p *Prog) DecEntries() ([]*ssa.Function, error)  { return p.resolve(decEntrySpecs) }
func (p *Prog) HashEntries() ([]*ssa.Function, error) { return p.resolve(hashEntrySpecs) }

// StateEntries: the hashing entry points whose shared state C04/C05 enumerate — the perceptual hashes and the
// other exported hash of package imagehash (the pixel-layout rules of C19/C20 stay on the perceptual hashes).
func (p *Prog) StateEntries() ([]*ssa.Function, error) {
	return p.resolve(append(append([]epSpec{}, hashEntrySpecs...), epSpec{"imagehash", "", "EncodeBlurHashFast"}))
}

// LibReach returns the library functions reachable from the given roots, sorted by name.
func (p *Prog) LibReach(roots []*ssa.Function) []*ssa.Function {
	r := p.Reach(roots)
	var out []*ssa.Function
	for f := range r {
		if isLibFn(f) && f.Blocks != nil {
			out = append(out, f)
		}
	}
	sortFns(out)
	return out
}

// LibReachDirect: library functions reachable through chains of library functions only (callees of
// standard-library code, e.g. the io.Reader behind a bufio.Reader, are not followed).
func (p *Prog) LibReachDirect(roots []*ssa.Function) []*ssa.Function {
	cg := p.CG()
	seen := map[*ssa.Function]bool{}
	var st, out []*ssa.Function
	for _, r := range roots {
		if r != nil && !seen[r] {
			seen[r] = true
			st = append(st, r)
		}
	}
	for len(st) > 0 {
		f := st[len(st)-1]
		st = st[:len(st)-1]
		if !isLibFn(f) {
			continue
		}
		if f.Blocks != nil {
			out = append(out, f)
		}
		if n := cg.Nodes[f]; n != nil {
			for _, e := range n.Out {
				if !seen[e.Callee.Func] {
					seen[e.Callee.Func] = true
					st = append(st, e.Callee.Func)
				}
			}
		}
		for _, a := range f.AnonFuncs {
			if !seen[a] {
				seen[a] = true
				st = append(st, a)
			}
		}
	}
	sortFns(out)
	return out
}

func sortFns(fs []*ssa.Function) {
	sort.Slice(fs, func(i, j int) bool {
		a, b := fnName(fs[i]), fnName(fs[j])
		if a != b {
			return a < b
		}
		return fs[i].Pos() < fs[j].Pos()
	})
}

// AllLibFns returns every library function with a body (incl. anonymous, methods), sorted.
func (p *Prog) AllLibFns() []*ssa.Function {
	var out []*ssa.Function
	for f := range p.AllFns() {
		if isLibFn(f) && f.Blocks != nil && (f.Synthetic == "" || f.Synthetic == "package initializer") {
			out = append(out, f)
		}
	}
	sortFns(out)
	return out
}

// ---- AST helpers -------------------------------------------------------------

// FuncDecl finds the declaration of function/method in a library package.
func (p *Prog) FuncDecl(rel, recv, name string) (*ast.FuncDecl, *packages.Package) {
	pk := p.LibPkg(rel)
	if pk == nil {
		return nil, nil
	}
	for _, f := range pk.Syntax {
		for _, d := range f.Decls {
			fd, ok := d.(*ast.FuncDecl)
			if !ok || fd.Name.Name != name {
				continue
			}
			if recv == "" && fd.Recv == nil {
				return fd, pk
			}
			if recv != "" && fd.Recv != nil && len(fd.Recv.List) == 1 {
				if recvString(fd.Recv.List[0].Type) == recv {
					return fd, pk
				}
			}
		}
	}
	return nil, pk
}

func recvString(e ast.Expr) string {
	switch t := e.(type) {
	case *ast.StarExpr:
		return "*" + recvString(t.X)
	case *ast.Ident:
		return t.Name
	case *ast.IndexExpr:
		return recvString(t.X)
	}
	return "?"
}
