package main

// Thorough tier: after the rules have run on the tree under analysis, the same check is run (as a subprocess, one
// at a time — many loaded programs in one process exhaust memory) on scratch copies of that tree with (a) each
// seeded change of this property applied — the check must report something new — and (b) each behaviour-preserving
// variant applied — the check must report nothing new. Copies live under /var/tmp and are removed immediately.
// Patches that no longer apply (the tree was edited) are skipped. Results go into the evidence; they are statements
// about the checker, not about the property, so they never produce a VIOLATION line.

import (
	"encoding/json"
	"fmt"
	"os"
	"os/exec"
	"path/filepath"
	"sort"
	"strings"
)

type selfTestResult struct {
	SeedsApplied   int      `json:"seeds_applied"`
	SeedsCaught    int      `json:"seeds_caught"`
	SeedsMissed    []string `json:"seeds_missed"`
	SeedsDelegated []string `json:"seeds_reported_by_a_listed_sibling_check"`
	DeclaredMisses []string `json:"declared_misses"`
	NeutralApplied int      `json:"neutral_variants_applied"`
	NeutralSilent  int      `json:"neutral_variants_silent"`
	NeutralAlarms  []string `json:"neutral_variants_alarmed"`
	Skipped        []string `json:"skipped_patch_does_not_apply_or_build"`
	Details        []string `json:"details"`
}

func violationKeys(r *Report) map[string]bool {
	out := map[string]bool{}
	for _, o := range r.obs {
		if o.Verdict == Violation || o.Verdict == Undecided {
			out[o.Rule+" | "+o.Key] = true
		}
	}
	for _, f := range r.fatal {
		out["CHECKER | "+f] = true
	}
	return out
}

func runOnVariant(exe, prop, repo, patch string) (keys map[string]bool, ok bool, why string) {
	d, err := os.MkdirTemp("/var/tmp", "imverif-self-")
	if err != nil {
		return nil, false, err.Error()
	}
	defer os.RemoveAll(d)
	cp := exec.Command("rsync", "-a", "--exclude", ".git", repo+"/", d+"/repo/")
	if out, err := cp.CombinedOutput(); err != nil {
		return nil, false, "copy: " + string(out)
	}
	work := filepath.Join(d, "repo")
	env := append(os.Environ(), "GOFLAGS=-mod=mod", "GOPROXY=off", "GOSUMDB=off", "GOTOOLCHAIN=local", "GOWORK=off")
	for _, c := range [][]string{{"git", "init", "-q", "."}, {"git", "apply", patch}} {
		cmd := exec.Command(c[0], c[1:]...)
		cmd.Dir = work
		cmd.Env = env
		if out, err := cmd.CombinedOutput(); err != nil {
			return nil, false, "patch does not apply: " + strings.TrimSpace(string(out))
		}
	}
	b := exec.Command("go", "build", "./...")
	b.Dir = work
	b.Env = env
	if out, err := b.CombinedOutput(); err != nil {
		return nil, false, "does not build: " + strings.TrimSpace(string(out))
	}
	ev := filepath.Join(d, "ev")
	run := exec.Command(exe, "check", prop, "--tier", "quick", "--repo", work)
	run.Env = append(env, "IMVERIF_EVIDENCE="+ev)
	run.CombinedOutput()
	bts, err := os.ReadFile(filepath.Join(ev, prop+".json"))
	if err != nil {
		return nil, false, "no evidence written"
	}
	var evd struct {
		Coverage struct {
			ViolationKeys []string `json:"violation_keys"`
		} `json:"coverage"`
	}
	if err := json.Unmarshal(bts, &evd); err != nil {
		return nil, false, err.Error()
	}
	keys = map[string]bool{}
	for _, k := range evd.Coverage.ViolationKeys {
		keys[k] = true
	}
	return keys, true, ""
}

func selfTest(r *Report, prop, repo string) {
	exe, err := os.Executable()
	if err != nil {
		r.Note("self-test skipped: %v", err)
		return
	}
	root := r.verifDir
	base := violationKeys(r)
	res := &selfTestResult{}
	// seeds of this property, or listing it in `also`
	ents, _ := os.ReadDir(filepath.Join(root, "seeded"))
	var seeds []string
	for _, e := range ents {
		if !e.IsDir() {
			continue
		}
		mine := strings.HasPrefix(e.Name(), prop+"-")
		if b, err := os.ReadFile(filepath.Join(root, "seeded", e.Name(), "also")); err == nil {
			for _, a := range strings.Fields(string(b)) {
				if a == prop {
					mine = true
				}
			}
		}
		if mine {
			seeds = append(seeds, e.Name())
		}
	}
	sort.Strings(seeds)
	for _, s := range seeds {
		keys, ok, why := runOnVariant(exe, prop, repo, filepath.Join(root, "seeded", s, "patch.diff"))
		if !ok {
			res.Skipped = append(res.Skipped, s+": "+why)
			continue
		}
		res.SeedsApplied++
		var fresh []string
		for k := range keys {
			if !base[k] {
				fresh = append(fresh, k)
			}
		}
		sort.Strings(fresh)
		if len(fresh) > 0 {
			res.SeedsCaught++
			res.Details = append(res.Details, fmt.Sprintf("seed %s: %d new violation keys, first: %s", s, len(fresh), fresh[0]))
		} else {
			// a seed of another property listed here through `also` may legitimately be invisible to this check only if its own
			// property catches it; seeds named after this property must be caught (C16-1 is the declared exception)
			declared := map[string]bool{"C03-5": true, "C16-1": true, "C16-3": true, "C16-24": true}
			also, _ := os.ReadFile(filepath.Join(root, "seeded", s, "also"))
			switch {
			case declared[s]:
				res.DeclaredMisses = append(res.DeclaredMisses, s)
			case strings.HasPrefix(s, prop+"-") && len(strings.Fields(string(also))) > 0:
				res.SeedsDelegated = append(res.SeedsDelegated, s+" → "+strings.Join(strings.Fields(string(also)), ", "))
			default:
				res.SeedsMissed = append(res.SeedsMissed, s)
			}
		}
	}
	nents, _ := os.ReadDir(filepath.Join(root, "neutral"))
	for _, e := range nents {
		if !strings.HasSuffix(e.Name(), ".diff") {
			continue
		}
		keys, ok, why := runOnVariant(exe, prop, repo, filepath.Join(root, "neutral", e.Name()))
		if !ok {
			res.Skipped = append(res.Skipped, e.Name()+": "+why)
			continue
		}
		res.NeutralApplied++
		alarm := ""
		for k := range keys {
			if !base[k] {
				alarm = k
			}
		}
		if alarm == "" {
			res.NeutralSilent++
		} else {
			res.NeutralAlarms = append(res.NeutralAlarms, e.Name()+": "+alarm)
		}
	}
	r.Extra("selftest", res)
	if len(res.SeedsMissed) > 0 {
		r.Note("self-test: seeded changes not reported by this check: %s", strings.Join(res.SeedsMissed, ", "))
	}
	if len(res.NeutralAlarms) > 0 {
		r.Note("self-test: behaviour-preserving variants on which this check raises an alarm: %s", strings.Join(res.NeutralAlarms, "; "))
	}
	fmt.Printf("%s self-test: %d/%d seeded changes reported by this check (%d by a listed sibling, %d declared misses, %d unexplained), %d/%d behaviour-preserving variants silent, %d skipped\n",
		prop, res.SeedsCaught, res.SeedsApplied, len(res.SeedsDelegated), len(res.DeclaredMisses), len(res.SeedsMissed), res.NeutralSilent, res.NeutralApplied, len(res.Skipped))
}
