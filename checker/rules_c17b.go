package main

// C17 — INITORD: no name table is consulted before it exists.
//
// Go initialises package-level variables in dependency order, but only dependencies it can see: a reference hidden
// behind an interface call (fmt.Sprintf("%s", v) calling v.String(), which reads a map) is not one. A variable whose
// initialiser reaches, through such a call, a table of the same package that is initialised later is computed from
// a nil map or an empty slice — a stringer then returns a wrong name for ever after. The package initialiser that
// go/ssa builds lists the initialisations in the compiler's order; walking it, every library global read (through
// static calls, and through the String/Error methods of values boxed into interface arguments of fmt calls) must
// already have been stored, or have no initialiser at all.

import (
	"encoding/json"
	"fmt"
	"go/constant"
	"go/token"
	"go/types"
	"os"
	"path/filepath"
	"sort"
	"strconv"
	"strings"

	"golang.org/x/tools/go/ssa"
)

func ruleInitOrd(p *Prog, r *Report) {
	n := 0
	for _, pk := range p.Lib {
		sp := p.SSA.Package(pk.Types)
		if sp == nil {
			continue
		}
		initf := sp.Func("init")
		if initf == nil || initf.Blocks == nil {
			continue
		}
		// globals of this package that the initialiser stores (i.e. that have an initialiser expression)
		hasInit := map[*ssa.Global]bool{}
		eachInstr(initf, func(_ *ssa.BasicBlock, _ int, in ssa.Instruction) {
			if st, ok := in.(*ssa.Store); ok {
				if g, ok := st.Addr.(*ssa.Global); ok && g.Pkg == sp {
					hasInit[g] = true
				}
			}
		})
		if len(hasInit) == 0 {
			continue
		}
		// transitive read set of a function: library globals of this package loaded, following static calls and the
		// String/Error methods of concrete values boxed for fmt
		memo := map[*ssa.Function]map[*ssa.Global]bool{}
		var reads func(f *ssa.Function, depth int) map[*ssa.Global]bool
		reads = func(f *ssa.Function, depth int) map[*ssa.Global]bool {
			if m, ok := memo[f]; ok {
				return m
			}
			m := map[*ssa.Global]bool{}
			memo[f] = m
			if f.Blocks == nil || depth > 8 || !isLibFn(f) {
				return m
			}
			eachInstr(f, func(_ *ssa.BasicBlock, _ int, in ssa.Instruction) {
				var ops []*ssa.Value
				for _, op := range in.Operands(ops) {
					if g, ok := (*op).(*ssa.Global); ok && g.Pkg == sp {
						if _, isStore := in.(*ssa.Store); isStore && in.(*ssa.Store).Addr == ssa.Value(g) {
							continue
						}
						m[g] = true
					}
				}
				ci, ok := in.(ssa.CallInstruction)
				if !ok {
					return
				}
				c := ci.Common()
				if sc := c.StaticCallee(); sc != nil {
					for g := range reads(sc, depth+1) {
						m[g] = true
					}
					// fmt (and anything taking ...interface{}): the methods fmt calls on boxed library values
					if sc.Pkg != nil && sc.Pkg.Pkg.Path() == "fmt" {
						for _, a := range c.Args {
							for _, mth := range boxedStringers(p, a, 0) {
								for g := range reads(mth, depth+1) {
									m[g] = true
								}
							}
						}
					}
				}
			})
			return m
		}
		// walk the initialiser in order
		done := map[*ssa.Global]bool{}
		var blocks []*ssa.BasicBlock
		blocks = append(blocks, initf.Blocks...)
		for _, b := range blocks {
			for _, in := range b.Instrs {
				if st, ok := in.(*ssa.Store); ok {
					if g, ok := st.Addr.(*ssa.Global); ok && g.Pkg == sp {
						done[g] = true
					}
					continue
				}
				ci, ok := in.(ssa.CallInstruction)
				if !ok {
					continue
				}
				sc := ci.Common().StaticCallee()
				if sc == nil || !isLibFn(sc) || sc.Pkg != sp {
					continue
				}
				n++
				var early []string
				for g := range reads(sc, 0) {
					if hasInit[g] && !done[g] {
						early = append(early, g.Name())
					}
				}
				sort.Strings(early)
				key := fmt.Sprintf("%s.init | call %s", relPkg(sp.Pkg.Path()), fnName(sc))
				// several calls of one helper in one initialiser share a key: report the first offender only once
				at := p.posStr(instrPos(ci))
				if len(early) > 0 {
					r.Bad("INITORD", key, at, fmt.Sprintf("this initialiser runs before %s %s initialised (the dependency is hidden behind an interface call, so the compiler does not order them): the value computed here comes from an empty table", strings.Join(early, ", "), map[bool]string{true: "is", false: "are"}[len(early) == 1]))
				} else {
					r.OK("INITORD", key, at, "every table it reads is initialised earlier or has no initialiser")
				}
			}
		}
	}
	r.Extra("initord_calls", n)
}

// boxedStringers: the String/Error/Format methods of the concrete library value that v boxes (a MakeInterface, or a
// slice literal of them as built for variadic ...interface{} parameters).
func boxedStringers(p *Prog, v ssa.Value, depth int) []*ssa.Function {
	if depth > 4 {
		return nil
	}
	var out []*ssa.Function
	switch x := v.(type) {
	case *ssa.MakeInterface:
		t := x.X.Type()
		for _, name := range []string{"String", "Error", "Format", "GoString", "MarshalZerologObject", "MarshalZerologArray"} {
			ms := p.SSA.MethodSets.MethodSet(t)
			if sel := ms.Lookup(nil, name); sel != nil {
				if f := p.SSA.MethodValue(sel); f != nil && isLibFn(f) {
					out = append(out, f)
				}
			} else if nt, ok := t.(*types.Named); ok && nt.Obj().Pkg() != nil {
				if sel := ms.Lookup(nt.Obj().Pkg(), name); sel != nil {
					if f := p.SSA.MethodValue(sel); f != nil && isLibFn(f) {
						out = append(out, f)
					}
				}
			}
		}
	case *ssa.Slice:
		// varargs: new [n]interface{}; stores of MakeInterface into its elements
		if al, ok := x.X.(*ssa.Alloc); ok {
			for _, rf := range refs(al) {
				if ia, ok := rf.(*ssa.IndexAddr); ok {
					for _, r2 := range refs(ia) {
						if st, ok := r2.(*ssa.Store); ok && st.Addr == ssa.Value(ia) {
							out = append(out, boxedStringers(p, st.Val, depth+1)...)
						}
					}
				}
			}
		}
	case *ssa.UnOp:
		if x.Op == token.MUL {
			return boxedStringers(p, x.X, depth+1)
		}
	}
	return out
}

// ---- TBLNAME: every row of a name table is the name its value formats to ----------------------------------
//
// Where a String method of an integer type looks its receiver up directly in a package-level table of names
// (an array or slice of strings indexed by the value, or a map keyed by it), every non-empty row k: "Name" of that
// table is a documented name: folding String(k) must give exactly that name. A row that the stringer never
// returns — cut off by a guard that is one too tight, shadowed by an earlier case — is a documented value that
// formats as the fallback.
func ruleTblName(p *Prog, r *Report, fd *folder, ms []*ssa.Function) {
	tb := p.Tables()
	for _, f := range ms {
		named := recvNamed(f)
		if named == nil || !isIntType(named.Underlying()) || f.Signature.Recv() == nil || f.Name() != "String" || len(f.Params) != 1 {
			continue
		}
		if _, isPtr := f.Signature.Recv().Type().(*types.Pointer); isPtr {
			continue
		}
		recv := ssa.Value(f.Params[0])
		isRecv := func(v ssa.Value) bool {
			for i := 0; i < 4; i++ {
				if v == recv {
					return true
				}
				switch x := v.(type) {
				case *ssa.Convert:
					v = x.X
				case *ssa.ChangeType:
					v = x.X
				default:
					return false
				}
			}
			return false
		}
		tablesUsed := map[*ssa.Global]bool{}
		eachInstr(f, func(_ *ssa.BasicBlock, _ int, in ssa.Instruction) {
			switch x := in.(type) {
			case *ssa.IndexAddr:
				if g := globalOf(x.X); g != nil && isRecv(x.Index) {
					tablesUsed[g] = true
				}
			case *ssa.Index:
				if g := loadOfGlobal(x.X); g != nil && isRecv(x.Index) {
					tablesUsed[g] = true
				}
			case *ssa.Lookup:
				if g := loadOfGlobal(x.X); g != nil && isRecv(x.Index) {
					tablesUsed[g] = true
				}
			}
		})
		var gs []*ssa.Global
		for g := range tablesUsed {
			gs = append(gs, g)
		}
		sort.Slice(gs, func(i, j int) bool { return globalName(gs[i]) < globalName(gs[j]) })
		for _, g := range gs {
			tv := tb.Val(g)
			if tv == nil {
				continue
			}
			type row struct {
				k    int64
				name string
			}
			var rows []row
			switch tv.Kind {
			case "strings":
				for i, s := range tv.Strs {
					if s != "" {
						rows = append(rows, row{int64(i), s})
					}
				}
			case "map":
				for i, k := range tv.MapKeys {
					if k == nil || k.Kind() != constant.Int || i >= len(tv.MapVals) || tv.MapVals[i] == nil || tv.MapVals[i].Kind() != constant.String {
						continue
					}
					kk, ok := constant.Int64Val(k)
					if !ok {
						continue
					}
					if s := constant.StringVal(tv.MapVals[i]); s != "" {
						rows = append(rows, row{kk, s})
					}
				}
			default:
				continue
			}
			if len(rows) == 0 {
				continue
			}
			key := fmt.Sprintf("%s | rows of %s", fnName(f), globalName(g))
			at := p.posStr(f.Pos())
			bad, und := "", ""
			for _, rw := range rows {
				res := fd.fold(f, []cval{{kind: "int", i: rw.k}})
				switch {
				case res.panics != "":
					bad += fmt.Sprintf("String(%d) panics (%s); ", rw.k, res.panics)
				case res.undecided != "":
					und = res.undecided
				case res.val.s != rw.name:
					bad += fmt.Sprintf("row %d: %q is never returned — String(%d) is %q; ", rw.k, rw.name, rw.k, res.val.s)
				}
			}
			switch {
			case bad != "":
				r.Bad("TBLNAME", key, at, "the table documents names the stringer does not produce: "+bad)
			case und != "":
				r.OK("TBLNAME", key, at, "stringer not foldable ("+und+"): rows not compared")
			default:
				r.OK("TBLNAME", key, at, fmt.Sprintf("%d rows, each is what String returns for its value", len(rows)))
			}
		}
	}
}

// ---- SUBTAG: the strip pointers carry their sub-directory names ------------------------------------------------------
//
// exif2/ifds.IfdType.TagName(id) is folded for the rows of spec/subifd_tag_names.json (directory, id, name — written
// from the ExifTool tables): in the numbered sub-directories 0x0111/0x0117 are PreviewImageStart/Length, in SubIfd2
// JpgFromRawStart/Length, 0x0116 stays RowsPerStrip, and IFD0 keeps the TIFF names.
func ruleSubTag(p *Prog, r *Report, fd *folder) {
	b, err := os.ReadFile(filepath.Join(r.verifDir, "spec", "subifd_tag_names.json"))
	if err != nil {
		r.Undecided("SUBTAG", "spec/subifd_tag_names.json", "-", err.Error())
		return
	}
	var sp struct {
		Rows [][3]string `json:"rows"`
	}
	if err := json.Unmarshal(b, &sp); err != nil {
		r.Undecided("SUBTAG", "spec/subifd_tag_names.json", "-", err.Error())
		return
	}
	f := p.Func("exif2/ifds", "IfdType", "TagName")
	pk := p.LibPkg("exif2/ifds")
	if f == nil || pk == nil {
		r.Undecided("SUBTAG", "exif2/ifds.(IfdType).TagName", "-", "unresolved anchor")
		return
	}
	for _, row := range sp.Rows {
		key := fmt.Sprintf("exif2/ifds.(IfdType).TagName | %s %s = %q", row[0], row[1], row[2])
		c, _ := pk.Types.Scope().Lookup(row[0]).(*types.Const)
		id, perr := strconv.ParseInt(row[1], 0, 64)
		if c == nil || perr != nil {
			r.Undecided("SUBTAG", key, "-", "directory constant or id not resolved")
			continue
		}
		dv, _ := constantInt64(c)
		res := fd.fold(f, []cval{{kind: "int", i: dv}, {kind: "int", i: id}})
		at := p.posStr(f.Pos())
		switch {
		case res.panics != "":
			r.Bad("SUBTAG", key, at, "the lookup panics: "+res.panics)
		case res.undecided != "":
			r.Undecided("SUBTAG", key, at, "not foldable: "+res.undecided)
		case res.val.s != row[2]:
			r.Bad("SUBTAG", key, at, fmt.Sprintf("TagName gives %q", res.val.s))
		default:
			r.OK("SUBTAG", key, at, "folded name equals the table")
		}
	}
}
