package main

// C17 — INITORD: no name table is consulted before it exists.
//
// Go initialises package-level variables in dependency order, but only dependencies it can see: a reference hidden
// behind an interface call (fmt.Sprintf("%s", v) calling v.String(), which reads a map) is not one. A variable whose
// initialiser reaches, through such a call, a table of the same package that is initialised later is computed from
// a nil map or an empty slice — a stringer then returns a wrong name for ever after. The package initialiser that
// go/ssa builds lists the initialisations in the compiler's order; walking it, every library global read (through
// static calls, and through the String/Error methods of values boxed into interface arguments of fmt calls) must
// already have been stored, or have no initialiser at all.

import (
	"fmt"
	"go/token"
	"go/types"
	"sort"
	"strings"

	"golang.org/x/tools/go/ssa"
)

func ruleInitOrd(p *Prog, r *Report) {
	n := 0
	for _, pk := range p.Lib {
		sp := p.SSA.Package(pk.Types)
		if sp == nil {
			continue
		}
		initf := sp.Func("init")
		if initf == nil || initf.Blocks == nil {
			continue
		}
		// globals of this package that the initialiser stores (i.e. that have an initialiser expression)
		hasInit := map[*ssa.Global]bool{}
		eachInstr(initf, func(_ *ssa.BasicBlock, _ int, in ssa.Instruction) {
			if st, ok := in.(*ssa.Store); ok {
				if g, ok := st.Addr.(*ssa.Global); ok && g.Pkg == sp {
					hasInit[g] = true
				}
			}
		})
		if len(hasInit) == 0 {
			continue
		}
		// transitive read set of a function: library globals of this package loaded, following static calls and the
		// String/Error methods of concrete values boxed for fmt
		memo := map[*ssa.Function]map[*ssa.Global]bool{}
		var reads func(f *ssa.Function, depth int) map[*ssa.Global]bool
		reads = func(f *ssa.Function, depth int) map[*ssa.Global]bool {
			if m, ok := memo[f]; ok {
				return m
			}
			m := map[*ssa.Global]bool{}
			memo[f] = m
			if f.Blocks == nil || depth > 8 || !isLibFn(f) {
				return m
			}
			eachInstr(f, func(_ *ssa.BasicBlock, _ int, in ssa.Instruction) {
				var ops []*ssa.Value
				for _, op := range in.Operands(ops) {
					if g, ok := (*op).(*ssa.Global); ok && g.Pkg == sp {
						if _, isStore := in.(*ssa.Store); isStore && in.(*ssa.Store).Addr == ssa.Value(g) {
							continue
						}
						m[g] = true
					}
				}
				ci, ok := in.(ssa.CallInstruction)
				if !ok {
					return
				}
				c := ci.Common()
				if sc := c.StaticCallee(); sc != nil {
					for g := range reads(sc, depth+1) {
						m[g] = true
					}
					// fmt (and anything taking ...interface{}): the methods fmt calls on boxed library values
					if sc.Pkg != nil && sc.Pkg.Pkg.Path() == "fmt" {
						for _, a := range c.Args {
							for _, mth := range boxedStringers(p, a, 0) {
								for g := range reads(mth, depth+1) {
									m[g] = true
								}
							}
						}
					}
				}
			})
			return m
		}
		// walk the initialiser in order
		done := map[*ssa.Global]bool{}
		var blocks []*ssa.BasicBlock
		blocks = append(blocks, initf.Blocks...)
		for _, b := range blocks {
			for _, in := range b.Instrs {
				if st, ok := in.(*ssa.Store); ok {
					if g, ok := st.Addr.(*ssa.Global); ok && g.Pkg == sp {
						done[g] = true
					}
					continue
				}
				ci, ok := in.(ssa.CallInstruction)
				if !ok {
					continue
				}
				sc := ci.Common().StaticCallee()
				if sc == nil || !isLibFn(sc) || sc.Pkg != sp {
					continue
				}
				n++
				var early []string
				for g := range reads(sc, 0) {
					if hasInit[g] && !done[g] {
						early = append(early, g.Name())
					}
				}
				sort.Strings(early)
				key := fmt.Sprintf("%s.init | call %s", relPkg(sp.Pkg.Path()), fnName(sc))
				// several calls of one helper in one initialiser share a key: report the first offender only once
				at := p.posStr(instrPos(ci))
				if len(early) > 0 {
					r.Bad("INITORD", key, at, fmt.Sprintf("this initialiser runs before %s %s initialised (the dependency is hidden behind an interface call, so the compiler does not order them): the value computed here comes from an empty table", strings.Join(early, ", "), map[bool]string{true: "is", false: "are"}[len(early) == 1]))
				} else {
					r.OK("INITORD", key, at, "every table it reads is initialised earlier or has no initialiser")
				}
			}
		}
	}
	r.Extra("initord_calls", n)
}

// boxedStringers: the String/Error/Format methods of the concrete library value that v boxes (a MakeInterface, or a
// slice literal of them as built for variadic ...interface{} parameters).
func boxedStringers(p *Prog, v ssa.Value, depth int) []*ssa.Function {
	if depth > 4 {
		return nil
	}
	var out []*ssa.Function
	switch x := v.(type) {
	case *ssa.MakeInterface:
		t := x.X.Type()
		for _, name := range []string{"String", "Error", "Format", "GoString", "MarshalZerologObject", "MarshalZerologArray"} {
			ms := p.SSA.MethodSets.MethodSet(t)
			if sel := ms.Lookup(nil, name); sel != nil {
				if f := p.SSA.MethodValue(sel); f != nil && isLibFn(f) {
					out = append(out, f)
				}
			} else if nt, ok := t.(*types.Named); ok && nt.Obj().Pkg() != nil {
				if sel := ms.Lookup(nt.Obj().Pkg(), name); sel != nil {
					if f := p.SSA.MethodValue(sel); f != nil && isLibFn(f) {
						out = append(out, f)
					}
				}
			}
		}
	case *ssa.Slice:
		// varargs: new [n]interface{}; stores of MakeInterface into its elements
		if al, ok := x.X.(*ssa.Alloc); ok {
			for _, rf := range refs(al) {
				if ia, ok := rf.(*ssa.IndexAddr); ok {
					for _, r2 := range refs(ia) {
						if st, ok := r2.(*ssa.Store); ok && st.Addr == ssa.Value(ia) {
							out = append(out, boxedStringers(p, st.Val, depth+1)...)
						}
					}
				}
			}
		}
	case *ssa.UnOp:
		if x.Op == token.MUL {
			return boxedStringers(p, x.X, depth+1)
		}
	}
	return out
}
