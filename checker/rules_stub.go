package main

func ruleStale(p *Prog, r *Report) {}
func ruleEsc(p *Prog, r *Report)   {}
