package main

// Affine forms over SSA integer values (used by BITS, ORIGIN, CONS, flatteners).

import (
	"fmt"
	"go/token"
	"go/types"
	"sort"
	"strings"

	"golang.org/x/tools/go/ssa"
)

// Aff is c + Σ coef[leaf]·leaf. Leaves are SSA values (phis, parameters, loads, calls) or
// structural div/mod nodes represented by *affOp.
type Aff struct {
	C     int64
	Terms map[any]int64 // key: ssa.Value or string (structural leaf)
	Leaf  map[string]*affOp
}

type affOp struct {
	Op string // "quo", "rem"
	X  *Aff
	K  int64
}

func newAff(c int64) *Aff { return &Aff{C: c, Terms: map[any]int64{}, Leaf: map[string]*affOp{}} }

func (a *Aff) clone() *Aff {
	b := newAff(a.C)
	for k, v := range a.Terms {
		b.Terms[k] = v
	}
	for k, v := range a.Leaf {
		b.Leaf[k] = v
	}
	return b
}

func (a *Aff) addScaled(b *Aff, s int64) *Aff {
	o := a.clone()
	o.C += s * b.C
	for k, v := range b.Terms {
		o.Terms[k] += s * v
		if o.Terms[k] == 0 {
			delete(o.Terms, k)
		}
	}
	for k, v := range b.Leaf {
		o.Leaf[k] = v
	}
	return o
}

func (a *Aff) scale(s int64) *Aff { return newAff(0).addScaled(a, s) }

func (a *Aff) isConst() (int64, bool) { return a.C, len(a.Terms) == 0 }

func (a *Aff) equal(b *Aff) bool {
	d := a.addScaled(b, -1)
	c, ok := d.isConst()
	return ok && c == 0
}

// coef returns the coefficient of an SSA leaf.
func (a *Aff) coef(v ssa.Value) int64 { return a.Terms[v] }

func (a *Aff) String() string {
	var parts []string
	for k, v := range a.Terms {
		name := ""
		switch x := k.(type) {
		case ssa.Value:
			name = shortVal(x)
			if x.Name() != "" {
				name += "@" + x.Name()
			}
		case string:
			name = x
		}
		parts = append(parts, fmt.Sprintf("%d*%s", v, name))
	}
	sort.Strings(parts)
	parts = append(parts, fmt.Sprint(a.C))
	return strings.Join(parts, " + ")
}

// affineOf evaluates an integer SSA value into an affine form. leafHook, if non-nil, may
// substitute a value (e.g. treat a specific value as a named symbol) — return nil to continue.
func affineOf(v ssa.Value, depth int) *Aff {
	if depth > 30 {
		a := newAff(0)
		a.Terms[v] = 1
		return a
	}
	switch x := v.(type) {
	case *ssa.Const:
		if k, ok := constInt(x); ok {
			return newAff(k)
		}
	case *ssa.Convert:
		// integer conversions are treated as value preserving here; rules that need exactness use E3
		if isIntType(x.X.Type()) && isIntType(x.Type()) {
			return affineOf(x.X, depth+1)
		}
	case *ssa.ChangeType:
		return affineOf(x.X, depth+1)
	case *ssa.BinOp:
		switch x.Op {
		case token.ADD:
			return affineOf(x.X, depth+1).addScaled(affineOf(x.Y, depth+1), 1)
		case token.SUB:
			return affineOf(x.X, depth+1).addScaled(affineOf(x.Y, depth+1), -1)
		case token.MUL:
			a, b := affineOf(x.X, depth+1), affineOf(x.Y, depth+1)
			if k, ok := a.isConst(); ok {
				return b.scale(k)
			}
			if k, ok := b.isConst(); ok {
				return a.scale(k)
			}
		case token.SHL:
			a, b := affineOf(x.X, depth+1), affineOf(x.Y, depth+1)
			if k, ok := b.isConst(); ok && k >= 0 && k < 62 {
				return a.scale(1 << uint(k))
			}
		case token.QUO, token.REM:
			a, b := affineOf(x.X, depth+1), affineOf(x.Y, depth+1)
			if k, ok := b.isConst(); ok && k > 0 {
				if c, ok := a.isConst(); ok {
					if x.Op == token.QUO {
						return newAff(c / k)
					}
					return newAff(c % k)
				}
				op := "quo"
				if x.Op == token.REM {
					op = "rem"
				}
				key := fmt.Sprintf("%s(%s,%d)", op, a.String(), k)
				o := newAff(0)
				o.Terms[key] = 1
				o.Leaf[key] = &affOp{Op: op, X: a, K: k}
				return o
			}
		}
	}
	a := newAff(0)
	a.Terms[v] = 1
	return a
}

func isIntType(t types.Type) bool {
	b, ok := t.Underlying().(*types.Basic)
	return ok && b.Info()&types.IsInteger != 0
}

// induction describes a counted loop variable: phi = φ(init, phi+step), guarded by phi <op> bound.
type induction struct {
	Phi   *ssa.Phi
	Init  *Aff
	Step  int64
	Bound *Aff        // the value compared against (nil if not found)
	Op    token.Token // comparison under which the loop continues, normalised to "phi Op bound"
	CmpOn *Aff        // the affine form that is compared (phi or phi+step for range loops)
}

func inductionOf(phi *ssa.Phi) (*induction, bool) {
	ind := &induction{Phi: phi}
	nstep, ninit := 0, 0
	for _, e := range phi.Edges {
		a := affineOf(e, 0)
		if a.coef(phi) == 1 && len(a.Terms) == 1 && a.C != 0 {
			if nstep > 0 && ind.Step != a.C {
				return nil, false
			}
			ind.Step = a.C
			nstep++
		} else {
			if ninit > 0 && !ind.Init.equal(a) {
				return nil, false
			}
			ind.Init = a
			ninit++
		}
	}
	if nstep == 0 || ninit == 0 {
		return nil, false
	}
	// find the loop condition: an If in the phi's block or a successor comparing phi(+k) with a bound
	blk := phi.Block()
	var cands []*ssa.BasicBlock
	cands = append(cands, blk)
	cands = append(cands, blk.Succs...)
	for _, b := range cands {
		if len(b.Instrs) == 0 {
			continue
		}
		ifi, ok := b.Instrs[len(b.Instrs)-1].(*ssa.If)
		if !ok {
			continue
		}
		bo, ok := ifi.Cond.(*ssa.BinOp)
		if !ok {
			continue
		}
		l, rr := affineOf(bo.X, 0), affineOf(bo.Y, 0)
		op := bo.Op
		if l.coef(phi) == 0 && rr.coef(phi) != 0 {
			l, rr = rr, l
			switch op {
			case token.LSS:
				op = token.GTR
			case token.GTR:
				op = token.LSS
			case token.LEQ:
				op = token.GEQ
			case token.GEQ:
				op = token.LEQ
			}
		}
		if l.coef(phi) != 1 || rr.coef(phi) != 0 {
			continue
		}
		switch op {
		case token.LSS, token.LEQ, token.GTR, token.GEQ, token.NEQ:
			ind.Op, ind.CmpOn, ind.Bound = op, l, rr
			return ind, true
		}
	}
	return ind, true
}

// rangeOfLeaf gives [lo,hi] of the values the affine form "CmpOn" takes inside the loop body for a
// constant-bound counted loop (hi inclusive). ok=false if not constant.
func (ind *induction) constRange() (lo, hi int64, ok bool) {
	if ind.Bound == nil || ind.Init == nil {
		return 0, 0, false
	}
	b, ok1 := ind.Bound.isConst()
	i0, ok2 := ind.Init.isConst()
	if !ok1 || !ok2 || ind.Step <= 0 {
		return 0, 0, false
	}
	// values of CmpOn = phi + d in the body
	d := ind.CmpOn.C
	switch ind.Op {
	case token.LSS:
		return i0 + d, b - 1, true
	case token.LEQ:
		return i0 + d, b, true
	case token.NEQ:
		// i != b with unit steps from a start not above b: the body sees start .. b-1
		if ind.Step == 1 && i0+d <= b {
			return i0 + d, b - 1, true
		}
	}
	return 0, 0, false
}
