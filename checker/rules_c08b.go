package main

import (
	"fmt"
	"go/types"
	"sort"

	"golang.org/x/tools/go/ssa"
)

// READAHEAD (C03, C08, C10): an Exif decoder that is called in the middle of a stream consumes what it decodes
// and nothing more.
//
// The container scanners hand their own buffered stream to the Exif callback - a function of the shape
// func(io.Reader, meta.ExifHeader) error - and go on reading it afterwards (the JPEG scanner resumes at the next
// marker, the ISOBMFF reader at the next box). A bufio.Reader put between that stream and the decoder pulls up
// to a buffer-full beyond the block out of the caller's stream and throws it away; what the caller then sees
// depends on how much the source delivered per Read. Obligation per library function of that shape: no
// bufio.NewReader / NewReaderSize / (*bufio.Reader).Reset is reachable from it inside the library. The places
// where the library does buffer (its top-level entry points, which own the stream) are counted as witnesses
// that the matcher sees such calls.
func ruleReadAhead(p *Prog, r *Report) {
	r.Explain("READAHEAD: from no library function of the shape func(io.Reader, meta.ExifHeader) error - the Exif callbacks the container scanners call in the middle of their stream - is a bufio.NewReader, NewReaderSize or (*bufio.Reader).Reset reachable through library code: a buffered wrapper reads beyond the Exif block and the scanner resumes in the wrong place, by an amount that depends on how the source chunks its data.")
	isWrap := func(c *ssa.CallCommon) bool {
		return isCallTo(c, "bufio.NewReader", "bufio.NewReaderSize", "(*bufio.Reader).Reset")
	}
	wrapsIn := map[*ssa.Function][]ssa.CallInstruction{}
	total := 0
	for _, f := range p.AllLibFns() {
		eachCall(f, func(site ssa.CallInstruction) {
			if isWrap(site.Common()) {
				wrapsIn[f] = append(wrapsIn[f], site)
				total++
			}
		})
	}
	var cbs []*ssa.Function
	for _, f := range p.AllLibFns() {
		sig := f.Signature
		ps := sig.Params()
		if ps.Len() != 2 || sig.Results().Len() != 1 || !isErrorType(sig.Results().At(0).Type()) {
			continue
		}
		if typeStr(ps.At(0).Type()) != "io.Reader" {
			continue
		}
		n, ok := ps.At(1).Type().(*types.Named)
		if !ok || n.Obj().Name() != "ExifHeader" || n.Obj().Pkg() == nil || !isRepoPath(n.Obj().Pkg().Path()) {
			continue
		}
		if f.Blocks == nil || f.Synthetic != "" {
			continue
		}
		cbs = append(cbs, f)
	}
	sortFns(cbs)
	for _, f := range cbs {
		key := fnName(f) + " | decodes the stream it is handed without read-ahead"
		at := p.posStr(f.Pos())
		var bad []string
		for _, g := range p.LibReachDirect([]*ssa.Function{f}) {
			for _, site := range wrapsIn[g] {
				bad = append(bad, fmt.Sprintf("%s at %s (in %s)", shortCallee(site.Common()), p.posStr(instrPos(site)), fnName(g)))
			}
		}
		sort.Strings(bad)
		if len(bad) > 0 {
			r.Bad("READAHEAD", key, at, "a buffered reader is put in front of the caller's stream: "+bad[0]+"; it reads beyond the Exif block, so the scanner that called the decoder resumes at the wrong place and the outcome depends on how the source chunks its data")
		} else {
			r.OK("READAHEAD", key, at, fmt.Sprintf("no bufio wrapper reachable (the matcher sees %d wrapping calls elsewhere in the library, all in entry points that own their stream)", total))
		}
	}
	if total == 0 {
		r.Undecided("READAHEAD", "library | wrapping calls visible", "-", "no bufio.NewReader/Reset call found anywhere in the library: the matcher may have lost its anchor")
	}
}
