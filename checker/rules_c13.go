package main

// C13 — XMP properties are extracted exactly: NSTBL, XDISPATCH, FORMS, ROOTSKIP (the tokenizer over all packets
// is a run-time matter and is not decided).

import (
	"encoding/json"
	"fmt"
	"go/constant"
	"go/token"
	"go/types"
	"os"
	"path/filepath"
	"sort"
	"strings"

	"golang.org/x/tools/go/ssa"
)

func init() { register("C13", true, checkC13) }

type xmpSpec struct {
	Namespaces map[string]string              `json:"namespaces"`
	Properties map[string]map[string][]string `json:"properties"`
}

func checkC13(p *Prog, r *Report) {
	r.Explain("The tokenizer's behaviour over all packets (look-ahead windows, quoting, white space) is a run-time matter and is not decided. Decided: NSTBL — the namespace and name tables are mutually inverse over the declared constants: IdentifyNamespace(String(ns)) == ns and IdentifyName(String(n)) == n for every declared constant, by constant folding of the tables (a property whose name is missing from either table is silently dropped); XDISPATCH — for every property of the independent table spec/xmp_props.json, the packet spelling is identified to a name constant, the namespace prefix dispatches in (*XMP).parser to the struct of that namespace, and that struct's parse method has a case for the constant that stores into the field(s) the table assigns; FORMS — attribute form and element form reach the per-namespace parsers through the same function: every call of a parse method is in (*XMP).parser, and in readTag/readSeqTags every successful readAttribute and readTagValue is followed by xmp.parser on every path; QUOTE — wherever the tokenizer compares a byte with a quote constant, the byte read at that position (the opening quote) is what the search for the closing quote looks for (bytes.IndexByte needle or comparison operand): a value delimited by one quote character may contain the other; RELIDX — an index returned by a search in x[a:] is relative to a: wherever it (or a sum containing it) indexes or slices x itself, a is part of the sum; XTOTAL — every index and slice in the functions of package xmp reachable from ParseXmp is proved in range by E3 with no credit for ParseXmp's recover frame: a panic at the edge of a look-ahead window turns a well-formed packet into an error (for C01 the same panic is contained; for this property it is a lost value); WINFIT — every look-ahead loop of the XMP reader (Peek(s) with s growing by a constant step) reaches, within the reader's buffer size, a window of at least 1027 bytes: a 1024-byte value with its delimiters is readable before ErrBufferFull ends the growth; ROOTSKIP — readRootTag keeps scanning when ReadSlice reports a full buffer without the start of the root element (bytes before the root element are skipped). FORMDEP — outside the tokenizer the attribute/element form of a property (property.pt) is read only under Name() == Rights or Title, the array properties whose rdf:li items carry attributes of their own; no simple property can be treated differently by form. DATEFALL — xmp.parseDate never reports an error before time.Parse with the plain layout 2006-01-02T15:04:05 (the only one accepting a zoneless value with any number of fractional digits) was tried. SEQEXIT — the loops of readTag and readSeqTags leave only on a callee error or a boolean answer of the tokenizer, never on an integer comparison (an item count). XSRC — the tokenizer look-ahead buffer is filled from the reader the caller passed, never from a length-limited view of it. FLOATW — every strconv.ParseFloat in package xmp whose result is used as a float64 passes bitSize 64 (32 would round a coordinate to float32 precision).")
	r.Trusted("spec/xmp_props.json (written from the XMP specification)", "bufio.ReadSlice returns ErrBufferFull when the delimiter is not within one buffer")
	fd := &folder{p: p}
	ruleRoundTrip(p, r, fd, "NSTBL", "xmp/xmpns", "Namespace", "String", "IdentifyNamespace", true)
	ruleRoundTrip(p, r, fd, "NSTBL", "xmp/xmpns", "Name", "String", "IdentifyName", true)
	ruleXDispatch(p, r)
	ruleForms(p, r)
	ruleFormDep(p, r)
	r.Floor("FORMDEP", 1)
	ruleDateFall(p, r)
	ruleSeqExit(p, r)
	ruleXSrc(p, r)
	ruleFloatWidth(p, r, "FLOATW", "xmp")
	r.Floor("FLOATW", 1)
	r.Floor("XSRC", 1)
	r.Floor("SEQEXIT", 2)
	r.Floor("DATEFALL", 1)
	ruleRootSkip(p, r)
	ruleQuote(p, r)
	r.Floor("QUOTE", 1)
	ruleWinFit(p, r)
	r.Floor("WINFIT", 2)
	ruleXTotal(p, r)
	r.Floor("XTOTAL", 40)
	ruleRelIdx(p, r) // no floor: rewriting the one search as a loop removes the instance without breaking anything
	ruleMaxIncl(p, r)
	rulePropErr(p, r)
	ruleWsSet(p, r)
	ruleNarrowX(p, r)
	ruleSignX(p, r)
	ruleEqRefl(p, r)
	ruleXBuf(p, r)
	ruleGuidCut(p, r)
	ruleGpsForm(p, r)
	ruleRatForm(p, r)
	ruleDateForms(p, r)
	ruleWsTok(p, r)
	ruleEntity(p, r)
	ruleMarkup(p, r)
	ruleChunkPat(p, r) // no floor: a scanner without a chunked read has no instance
	r.Floor("MARKUP", 1)
	r.Floor("ENTITY", 10)
	r.Floor("WSTOK", 5)
	r.Floor("DATEFORMS", 7)
	r.Floor("RATFORM", 5)
	r.Floor("GPSFORM", 2)
	r.Floor("GUIDCUT", 1)
	r.Floor("XBUF", 1)
	r.Floor("EQREFL", 1)
	r.Floor("SIGNX", 1)
	r.Floor("NARROWX", 3)
	r.Floor("WSSET", 1)
	r.Floor("PROPERR", 1)
	r.Floor("MAXINCL", 2)
	r.Floor("NSTBL", 100)
	r.Floor("XDISPATCH", 40)
	r.Floor("FORMS", 4)
	r.Floor("ROOTSKIP", 1)
}

// caseConsts: the constants c such that block b is entered under `sw == c` (switch cases, incl. multi-value cases
// whose body has several predecessors).
func caseConsts(b *ssa.BasicBlock, isSwitchVal func(ssa.Value) bool) []int64 {
	var out []int64
	add := func(cs []Cond) {
		for _, cd := range cs {
			bo, ok := cd.V.(*ssa.BinOp)
			if !ok || bo.Op != token.EQL || !cd.True || !isSwitchVal(bo.X) {
				continue
			}
			if k, ok := constInt(bo.Y); ok {
				out = append(out, k)
			}
		}
	}
	add(condsAt(b))
	// walk up through blocks that are joins of case edges
	for x := b; x != nil; x = x.Idom() {
		if len(x.Preds) > 1 {
			for _, pr := range x.Preds {
				var last []Cond
				if len(pr.Instrs) > 0 {
					if ifi, ok := pr.Instrs[len(pr.Instrs)-1].(*ssa.If); ok && pr.Succs[0] != pr.Succs[1] {
						last = []Cond{{V: ifi.Cond, True: pr.Succs[0] == x, At: pr}}
					}
				}
				add(last)
			}
		}
	}
	return out
}

func ruleXDispatch(p *Prog, r *Report) {
	b, err := os.ReadFile(filepath.Join(verifRoot(), "spec", "xmp_props.json"))
	if err != nil {
		r.Fatal("spec/xmp_props.json: " + err.Error())
		return
	}
	var spec xmpSpec
	if err := json.Unmarshal(b, &spec); err != nil {
		r.Fatal("spec/xmp_props.json: " + err.Error())
		return
	}
	t := p.Tables()
	strName := t.ValByName("xmp/xmpns", "mapStringName")
	strNS := t.ValByName("xmp/xmpns", "mapStringNS")
	lookup := func(tv *TableVal, s string) (int64, bool) {
		if tv == nil || tv.Kind != "map" {
			return 0, false
		}
		for i, k := range tv.MapKeys {
			if k.Kind() == constant.String && constant.StringVal(k) == s && tv.MapVals[i] != nil {
				v, ok := constant.Int64Val(tv.MapVals[i])
				return v, ok
			}
		}
		return 0, false
	}
	// namespace dispatch in (*XMP).parser
	pf := p.Func("xmp", "*XMP", "parser")
	if pf == nil {
		r.Undecided("XDISPATCH", "xmp.(*XMP).parser", "-", "anchor not resolved")
		return
	}
	isNSCall := func(v ssa.Value) bool {
		c, ok := v.(*ssa.Call)
		return ok && c.Call.StaticCallee() != nil && c.Call.StaticCallee().Name() == "Namespace"
	}
	nsStruct := map[int64]string{}
	eachCall(pf, func(site ssa.CallInstruction) {
		sc := site.Common().StaticCallee()
		if sc == nil || sc.Name() != "parse" || sc.Signature.Recv() == nil {
			return
		}
		n := namedOfPtr(sc.Signature.Recv().Type())
		if n == nil {
			return
		}
		for _, k := range caseConsts(site.Block(), isNSCall) {
			nsStruct[k] = n.Obj().Name()
		}
	})
	var prefixes []string
	for px := range spec.Namespaces {
		prefixes = append(prefixes, px)
	}
	sort.Strings(prefixes)
	for _, px := range prefixes {
		want := spec.Namespaces[px]
		key := fmt.Sprintf("xmp.(*XMP).parser | namespace %q → %s", px, want)
		at := p.posStr(pf.Pos())
		k, ok := lookup(strNS, px)
		switch {
		case !ok || k == 0:
			r.Bad("XDISPATCH", key, at, "the namespace prefix is not identified by the namespace table: every property of this namespace is dropped")
		case nsStruct[k] == "":
			r.Bad("XDISPATCH", key, at, "no dispatch case hands this namespace to a parser: its properties are dropped")
		case nsStruct[k] != want:
			r.Bad("XDISPATCH", key, at, "dispatched to "+nsStruct[k]+": properties of this namespace land in the wrong struct")
		default:
			r.OK("XDISPATCH", key, at, "dispatched to the struct of that namespace")
		}
	}
	// property dispatch per struct
	var structs []string
	for s := range spec.Properties {
		structs = append(structs, s)
	}
	sort.Strings(structs)
	for _, sn := range structs {
		f := p.Func("xmp", "*"+sn, "parse")
		if f == nil {
			r.Undecided("XDISPATCH", "xmp.(*"+sn+").parse", "-", "anchor not resolved")
			continue
		}
		recv := f.Params[0]
		isNameCall := func(v ssa.Value) bool {
			c, ok := v.(*ssa.Call)
			return ok && c.Call.StaticCallee() != nil && c.Call.StaticCallee().Name() == "Name"
		}
		// const → set of fields stored under that case
		stored := map[int64]map[string]bool{}
		eachInstr(f, func(b *ssa.BasicBlock, _ int, in ssa.Instruction) {
			st, ok := in.(*ssa.Store)
			if !ok {
				return
			}
			fa, ok := st.Addr.(*ssa.FieldAddr)
			if !ok || fa.X != ssa.Value(recv) {
				return
			}
			fn := fieldName(fa.X.Type(), fa.Field)
			for _, k := range caseConsts(b, isNameCall) {
				if stored[k] == nil {
					stored[k] = map[string]bool{}
				}
				stored[k][fn] = true
			}
		})
		// calls like `exif.ExposureBias.UnmarshalText(...)` store through a field address passed as receiver
		eachCall(f, func(site ssa.CallInstruction) {
			for _, a := range callArgs(site.Common()) {
				if fa, ok := a.(*ssa.FieldAddr); ok && fa.X == ssa.Value(recv) {
					fn := fieldName(fa.X.Type(), fa.Field)
					for _, k := range caseConsts(site.Block(), isNameCall) {
						if stored[k] == nil {
							stored[k] = map[string]bool{}
						}
						stored[k][fn] = true
					}
				}
			}
		})
		var props []string
		for pn := range spec.Properties[sn] {
			props = append(props, pn)
		}
		sort.Strings(props)
		for _, pn := range props {
			want := spec.Properties[sn][pn]
			key := fmt.Sprintf("xmp.(*%s).parse | property %q → %s", sn, pn, strings.Join(want, ","))
			at := p.posStr(f.Pos())
			k, ok := lookup(strName, pn)
			if !ok || k == 0 {
				r.Bad("XDISPATCH", key, at, "the packet spelling of this property is not identified by the name table (xmpns.mapStringName): the property is silently dropped")
				continue
			}
			got := stored[k]
			var missing []string
			for _, w := range want {
				if !got[w] {
					missing = append(missing, w)
				}
			}
			var extra []string
			for g := range got {
				found := false
				for _, w := range want {
					if w == g {
						found = true
					}
				}
				if !found {
					extra = append(extra, g)
				}
			}
			sort.Strings(extra)
			switch {
			case len(got) == 0:
				r.Bad("XDISPATCH", key, at, "no case of the parse method stores this property: it is silently dropped")
			case len(missing) > 0:
				r.Bad("XDISPATCH", key, at, fmt.Sprintf("the case for this property stores %v, not %v", keysOf(got), want))
			case len(extra) > 0:
				r.Bad("XDISPATCH", key, at, fmt.Sprintf("the case for this property also stores %v: another field is overwritten", extra))
			default:
				r.OK("XDISPATCH", key, at, "stored into the field the specification assigns")
			}
		}
	}
}

func keysOf(m map[string]bool) []string {
	var out []string
	for k := range m {
		out = append(out, k)
	}
	sort.Strings(out)
	return out
}

// ---- FORMS -----------------------------------------------------------------------------------------

func ruleForms(p *Prog, r *Report) {
	parser := p.Func("xmp", "*XMP", "parser")
	if parser == nil {
		r.Undecided("FORMS", "xmp.(*XMP).parser", "-", "anchor not resolved")
		return
	}
	// who calls the per-namespace parse methods
	sp := p.SSAPkg("xmp")
	for _, f := range pkgFns(sp, p) {
		eachCall(f, func(site ssa.CallInstruction) {
			sc := site.Common().StaticCallee()
			if sc == nil || sc.Name() != "parse" || sc.Signature.Recv() == nil || !isLibFn(sc) {
				return
			}
			key := fmt.Sprintf("%s | calls %s", fnName(f), fnName(sc))
			if f == parser {
				r.OK("FORMS", key, p.posStr(instrPos(site)), "per-namespace parsers are reached only through (*XMP).parser")
			} else {
				r.Bad("FORMS", key, p.posStr(instrPos(site)), "a per-namespace parser is called outside (*XMP).parser: one serialisation form takes a different route")
			}
		})
	}
	// every successful readAttribute / readTagValue is followed by xmp.parser
	for _, fn := range []string{"readTag", "readSeqTags"} {
		f := p.Func("xmp", "*xmpReader", fn)
		if f == nil {
			r.Undecided("FORMS", "xmp.(*xmpReader)."+fn, "-", "anchor not resolved")
			continue
		}
		parserBlocks := map[*ssa.BasicBlock]bool{}
		eachCall(f, func(site ssa.CallInstruction) {
			if site.Common().StaticCallee() == parser {
				parserBlocks[site.Block()] = true
			}
		})
		eachCall(f, func(site ssa.CallInstruction) {
			sc := site.Common().StaticCallee()
			if sc == nil || (sc.Name() != "readAttribute" && sc.Name() != "readTagValue") {
				return
			}
			form := "attribute"
			if sc.Name() == "readTagValue" {
				form = "element"
			}
			key := fmt.Sprintf("xmp.(*xmpReader).%s | %s value reaches xmp.parser", fn, form)
			at := p.posStr(instrPos(site))
			call, _ := site.(*ssa.Call)
			if call == nil {
				return
			}
			// start: the nil-error successor of the error test on this call's error result
			var starts []*ssa.BasicBlock
			errX := tupleExtract(call, 1)
			if errX != nil {
				for _, rf := range refs(errX) {
					// the error may be stored to a named result and re-loaded; follow the simple direct test first
					if bo, ok := rf.(*ssa.BinOp); ok && (isNilConst(bo.X) || isNilConst(bo.Y)) {
						for _, rf2 := range refs(bo) {
							if ifi, ok := rf2.(*ssa.If); ok {
								if bo.Op == token.NEQ {
									starts = append(starts, ifi.Block().Succs[1])
								} else {
									starts = append(starts, ifi.Block().Succs[0])
								}
							}
						}
					}
				}
			}
			if len(starts) == 0 {
				// named results with defer: the test is on a re-loaded value in the same block; use the block's If
				blk := site.Block()
				if ifi, ok := blk.Instrs[len(blk.Instrs)-1].(*ssa.If); ok {
					if bo, ok := ifi.Cond.(*ssa.BinOp); ok && (isNilConst(bo.X) || isNilConst(bo.Y)) && (isErrorType(bo.X.Type()) || isErrorType(bo.Y.Type())) {
						if bo.Op == token.NEQ {
							starts = append(starts, blk.Succs[1])
						} else {
							starts = append(starts, blk.Succs[0])
						}
					}
				}
			}
			if len(starts) == 0 {
				r.Undecided("FORMS", key, at, "error test after the read not recognised")
				return
			}
			// from the nil-error successor, can we reach a return or the next read (a block containing another
			// readTagHeader/readAttribute call) without passing xmp.parser?
			seen := map[*ssa.BasicBlock]bool{}
			var st []*ssa.BasicBlock
			for _, s := range starts {
				if !parserBlocks[s] {
					seen[s] = true
					st = append(st, s)
				}
			}
			escaped := ""
			for len(st) > 0 && escaped == "" {
				b := st[len(st)-1]
				st = st[:len(st)-1]
				for _, in := range b.Instrs {
					switch y := in.(type) {
					case *ssa.Return:
						escaped = "a return at " + p.posStr(instrPos(y))
					case *ssa.Call:
						if sc2 := y.Call.StaticCallee(); sc2 != nil && (sc2.Name() == "readTagHeader" || sc2.Name() == "readAttribute" || sc2.Name() == "readTagValue") && y != call {
							escaped = "the next read at " + p.posStr(instrPos(y))
						}
					}
				}
				for _, s := range b.Succs {
					if !seen[s] && !parserBlocks[s] {
						seen[s] = true
						st = append(st, s)
					}
				}
			}
			if escaped != "" {
				r.Bad("FORMS", key, at, "after a successful read "+escaped+" is reachable without xmp.parser: values in this serialisation form are dropped")
			} else {
				r.OK("FORMS", key, at, "every path from the successful read passes xmp.parser before the next read or a return")
			}
		})
	}
}

// ---- ROOTSKIP --------------------------------------------------------------------------------------

func ruleRootSkip(p *Prog, r *Report) {
	f := p.Func("xmp", "*xmpReader", "readRootTag")
	key := "xmp.(*xmpReader).readRootTag | a full buffer without '<' continues the scan"
	if f == nil {
		r.Undecided("ROOTSKIP", key, "-", "anchor not resolved")
		return
	}
	loops := findLoops(f)
	ok := false
	eachInstr(f, func(b *ssa.BasicBlock, _ int, in ssa.Instruction) {
		ifi, isIf := in.(*ssa.If)
		if !isIf {
			return
		}
		bo, isBo := ifi.Cond.(*ssa.BinOp)
		if !isBo || bo.Op != token.EQL {
			return
		}
		g := loadOfGlobal(bo.Y)
		if g == nil {
			g = loadOfGlobal(bo.X)
		}
		if g == nil || g.Pkg == nil || g.Pkg.Pkg.Path() != "bufio" || g.Name() != "ErrBufferFull" {
			return
		}
		// the true successor must stay in the loop and reach the header without a return
		for _, l := range loops {
			if !l.Blocks[b] {
				continue
			}
			t := b.Succs[0]
			if !l.Blocks[t] && t != l.Head {
				continue
			}
			// t reaches the header within the loop
			seen := map[*ssa.BasicBlock]bool{t: true}
			st := []*ssa.BasicBlock{t}
			for len(st) > 0 {
				x := st[len(st)-1]
				st = st[:len(st)-1]
				if x == l.Head {
					ok = true
					break
				}
				for _, s := range x.Succs {
					if (l.Blocks[s] || s == l.Head) && !seen[s] {
						seen[s] = true
						st = append(st, s)
					}
				}
			}
		}
	})
	if ok {
		r.OK("ROOTSKIP", key, p.posStr(f.Pos()), "err == bufio.ErrBufferFull leads back to the loop header")
	} else {
		r.Bad("ROOTSKIP", key, p.posStr(f.Pos()), "when more than one buffer of bytes precedes the root element ReadSlice reports ErrBufferFull; that case does not continue the scan, so the packet is not found (bytes before the root element are not skipped)")
	}
}

// ruleQuote: "with either quote character" — the closing quote is the character that opened the value.
func ruleQuote(p *Prog, r *Report) {
	sp := p.SSAPkg("xmp")
	if sp == nil {
		r.Undecided("QUOTE", "xmp | quote handling", "-", "package not loaded")
		return
	}
	isQuote := func(v ssa.Value) bool {
		k, ok := constInt(v)
		return ok && (k == '"' || k == '\'')
	}
	byteLoad := func(v ssa.Value) (*ssa.IndexAddr, bool) {
		u, ok := stripChange(v).(*ssa.UnOp)
		if !ok || u.Op != token.MUL {
			return nil, false
		}
		ia, ok := u.X.(*ssa.IndexAddr)
		return ia, ok
	}
	for _, f := range pkgFns(sp, p) {
		// a position of the window: the slice and its index, a constant or one SSA value (`buf[1]`, `buf[o]`)
		type pos struct {
			buf ssa.Value
			k   int64
			v   ssa.Value
		}
		posOf := func(ia *ssa.IndexAddr) pos {
			if k, ok := constInt(ia.Index); ok {
				return pos{buf: ia.X, k: k}
			}
			return pos{buf: ia.X, v: ia.Index}
		}
		opening := map[pos]string{}
		var order []pos
		at := ""
		eachInstr(f, func(_ *ssa.BasicBlock, _ int, in ssa.Instruction) {
			bo, ok := in.(*ssa.BinOp)
			if !ok || (bo.Op != token.EQL && bo.Op != token.NEQ) {
				return
			}
			x, y := bo.X, bo.Y
			if isQuote(x) {
				x, y = y, x
			}
			if !isQuote(y) {
				return
			}
			ia, ok := byteLoad(x)
			if !ok {
				return
			}
			if at == "" {
				at = p.posStr(instrPos(bo))
			}
			ps := posOf(ia)
			if _, seen := opening[ps]; !seen {
				opening[ps] = p.posStr(instrPos(bo))
				order = append(order, ps)
			}
		})
		if len(order) == 0 {
			continue
		}
		key := fnName(f) + " | closing quote = opening quote"
		// the byte at every position that is compared with a quote constant must be what the closing search looks
		// for: a position whose byte is only tested against both quote characters is a closing test that accepts
		// either of them
		used := map[pos]bool{}
		eachInstr(f, func(_ *ssa.BasicBlock, _ int, in ssa.Instruction) {
			u, ok := in.(*ssa.UnOp)
			if !ok || u.Op != token.MUL {
				return
			}
			ia, ok := u.X.(*ssa.IndexAddr)
			if !ok {
				return
			}
			ps := posOf(ia)
			if _, isOpen := opening[ps]; !isOpen {
				return
			}
			for _, rf := range refs(u) {
				switch x := rf.(type) {
				case ssa.CallInstruction:
					if sc := x.Common().StaticCallee(); sc != nil && sc.Pkg != nil && sc.Pkg.Pkg.Path() == "bytes" && strings.HasPrefix(sc.Name(), "IndexByte") {
						used[ps] = true
					}
				case *ssa.BinOp:
					if x.Op == token.EQL || x.Op == token.NEQ {
						other := x.X
						if other == ssa.Value(u) {
							other = x.Y
						}
						if _, isLoad := byteLoad(other); isLoad {
							used[ps] = true
						}
					}
				}
			}
		})
		bad := ""
		for _, ps := range order {
			if !used[ps] {
				idx := fmt.Sprint(ps.k)
				if ps.v != nil {
					idx = shortVal(ps.v)
				}
				bad = fmt.Sprintf("the byte at position %s is compared with a quote constant at %s but is not what the closing search looks for: the closing quote must be the character that opened the value, not either quote character", idx, opening[ps])
				break
			}
		}
		if bad == "" {
			r.OK("QUOTE", key, at, "quote constants are compared at the opening position only; the byte read there is the needle of the closing search")
		} else {
			r.Bad("QUOTE", key, at, bad)
		}
	}
}

// ruleRelIdx: r = bytes.IndexByte(x[a:], c) (any Index* of bytes/strings on a sub-slice with a non-zero low bound):
// every index or slice bound into x whose affine form contains r must contain a with the same coefficient.
func ruleRelIdx(p *Prog, r *Report) {
	for _, f := range p.AllLibFns() {
		eachCall(f, func(site ssa.CallInstruction) {
			c := site.Common()
			sc := c.StaticCallee()
			if sc == nil || sc.Pkg == nil || (sc.Pkg.Pkg.Path() != "bytes" && sc.Pkg.Pkg.Path() != "strings") {
				return
			}
			if !strings.HasPrefix(sc.Name(), "Index") && !strings.HasPrefix(sc.Name(), "LastIndex") {
				return
			}
			if len(c.Args) == 0 {
				return
			}
			sl, ok := c.Args[0].(*ssa.Slice)
			if !ok || sl.Low == nil {
				return
			}
			low := affineOf(sl.Low, 0)
			if k, isC := low.isConst(); isC && k == 0 {
				return
			}
			res := site.Value()
			if res == nil {
				return
			}
			key := fmt.Sprintf("%s | %s.%s(%s[%s:]) result used relative to the same base", fnName(f), sc.Pkg.Pkg.Name(), sc.Name(), shortVal(sl.X), shortVal(sl.Low))
			at := p.posStr(instrPos(site))
			uses, bad := 0, ""
			check := func(in ssa.Instruction, v ssa.Value, what string) {
				if v == nil {
					return
				}
				a := affineOf(v, 0)
				cf := a.coef(res)
				if cf == 0 {
					return
				}
				uses++
				for t, lv := range low.Terms {
					if a.Terms[t] != cf*lv {
						bad = fmt.Sprintf("%s %s of %s at %s contains the search result but not the offset %s the search started at: the result is relative to %s[%s:]", what, a, shortVal(sl.X), p.posStr(instrPos(in)), low, shortVal(sl.X), shortVal(sl.Low))
					}
				}
				if len(low.Terms) == 0 && a.C < cf*low.C {
					bad = fmt.Sprintf("%s %s of %s at %s contains the search result but not the constant offset %d the search started at", what, a, shortVal(sl.X), p.posStr(instrPos(in)), low.C)
				}
			}
			eachInstr(f, func(_ *ssa.BasicBlock, _ int, in ssa.Instruction) {
				switch x := in.(type) {
				case *ssa.IndexAddr:
					if x.X == sl.X {
						check(in, x.Index, "index")
					}
				case *ssa.Index:
					if x.X == sl.X {
						check(in, x.Index, "index")
					}
				case *ssa.Slice:
					if x.X == sl.X {
						check(in, x.Low, "low bound")
						check(in, x.High, "high bound")
					}
				case *ssa.Lookup:
					if x.X == sl.X {
						check(in, x.Index, "index")
					}
				}
			})
			if bad != "" {
				r.Bad("RELIDX", key, at, bad)
			} else {
				r.OK("RELIDX", key, at, fmt.Sprintf("%d uses as an index/bound into %s, each with the start offset added", uses, shortVal(sl.X)))
			}
		})
	}
}

// ruleWinFit: the growing look-ahead windows and the buffer size are three constants that must fit together. For
// each loop `for { buf, err = br.Peek(s); …; s += step }` in package xmp the largest window not exceeding the
// bufio.Reader size B (the constant handed to bufio.NewReaderSize) must hold a value of 1024 bytes (the property's
// documented value size) plus its delimiters.
func ruleWinFit(p *Prog, r *Report) {
	sp := p.SSAPkg("xmp")
	if sp == nil {
		r.Undecided("WINFIT", "xmp | look-ahead windows", "-", "package not loaded")
		return
	}
	const need = 1024 + 3
	B := int64(-1)
	for _, f := range pkgFns(sp, p) {
		eachCall(f, func(site ssa.CallInstruction) {
			if isCallTo(site.Common(), "bufio.NewReaderSize") && len(site.Common().Args) == 2 {
				if k, ok := constIntPhi(site.Common().Args[1]); ok && (B < 0 || k < B) {
					B = k
				}
			}
		})
	}
	if B < 0 {
		r.Undecided("WINFIT", "xmp | buffer size", "-", "no bufio.NewReaderSize with a constant size found in package xmp")
		return
	}
	// a caller's bufio.Reader is reused when its Size() is not below a threshold: the smallest buffer the reader can
	// end up with is the smaller of that threshold and the size it allocates itself
	for _, f := range pkgFns(sp, p) {
		eachInstr(f, func(_ *ssa.BasicBlock, _ int, in ssa.Instruction) {
			bo, ok := in.(*ssa.BinOp)
			if !ok {
				return
			}
			for _, pr := range [][2]ssa.Value{{bo.X, bo.Y}, {bo.Y, bo.X}} {
				c, ok := pr[0].(*ssa.Call)
				if !ok || !isCallTo(&c.Call, "(*bufio.Reader).Size") {
					continue
				}
				k, ok := constInt(pr[1])
				if !ok {
					continue
				}
				// Size() < K / Size() <= K-1 / K > Size(): readers of at least K bytes are kept
				switch {
				case bo.Op == token.LSS && pr[0] == bo.X, bo.Op == token.GTR && pr[0] == bo.Y:
				case bo.Op == token.LEQ && pr[0] == bo.X, bo.Op == token.GEQ && pr[0] == bo.Y:
					k++
				case bo.Op == token.GEQ && pr[0] == bo.X, bo.Op == token.LEQ && pr[0] == bo.Y:
				case bo.Op == token.GTR && pr[0] == bo.X, bo.Op == token.LSS && pr[0] == bo.Y:
					k++
				default:
					continue
				}
				if k < B {
					B = k
				}
			}
		})
	}
	for _, f := range pkgFns(sp, p) {
		loops := findLoops(f)
		eachCall(f, func(site ssa.CallInstruction) {
			c := site.Common()
			sc := c.StaticCallee()
			if sc == nil || sc.Name() != "Peek" || len(c.Args) != 2 {
				return
			}
			ph, ok := c.Args[1].(*ssa.Phi)
			if !ok {
				return
			}
			inLoop := false
			for _, l := range loops {
				if l.Head == ph.Block() {
					inLoop = true
				}
			}
			if !inLoop {
				return
			}
			key := fmt.Sprintf("%s | growing Peek window reaches %d bytes within the reader's smallest buffer", fnName(f), need)
			at := p.posStr(instrPos(site))
			ind, ok := inductionOf(ph)
			if !ok || ind.Step <= 0 {
				r.Undecided("WINFIT", key, at, "the window size is not a constant-step counter")
				return
			}
			s0, ok := ind.Init.isConst()
			if !ok {
				r.Undecided("WINFIT", key, at, "the first window size is not a constant")
				return
			}
			if s0 > B {
				r.Bad("WINFIT", key, at, fmt.Sprintf("the first window (%d) already exceeds the buffer (%d)", s0, B))
				return
			}
			w := s0 + (B-s0)/ind.Step*ind.Step
			if w < need {
				r.Bad("WINFIT", key, at, fmt.Sprintf("windows %d, %d, … by %d: the largest one the %d-byte buffer can serve is %d, so a value of 1024 bytes ends in ErrBufferFull", s0, s0+ind.Step, ind.Step, B, w))
			} else {
				r.OK("WINFIT", key, at, fmt.Sprintf("windows start at %d and grow by %d; largest within the buffer: %d", s0, ind.Step, w))
			}
		})
	}
}

// ruleXTotal: the XMP tokenizer and parsers never rely on ParseXmp's recover.
func ruleXTotal(p *Prog, r *Report) {
	entry := p.Func("xmp", "", "ParseXmp")
	if entry == nil {
		r.Undecided("XTOTAL", "xmp.ParseXmp", "-", "unresolved anchor")
		return
	}
	e := p.E3()
	n := 0
	for _, f := range p.LibReachDirect([]*ssa.Function{entry}) {
		g := f
		for g.Parent() != nil {
			g = g.Parent()
		}
		if g.Pkg == nil || !strings.HasPrefix(relPkg(g.Pkg.Pkg.Path()), "xmp") {
			continue
		}
		for _, ob := range e.fnB(f).obs {
			n++
			key := fnName(f) + " | " + ob.Key
			at := p.posStr(instrPos(ob.In))
			if ob.OK {
				r.OK("XTOTAL", key, at, ob.By)
			} else {
				r.Bad("XTOTAL", key, at, ob.Detail+" — inside ParseXmp this panic is recovered and returned as an error, so a well-formed packet that reaches it loses this and every later property")
			}
		}
	}
	r.Extra("xtotal_sites", n)
}

var _ = types.Typ

// constIntPhi: a constant, or a phi all of whose edges are that same constant (`size := K; if c { size = K }`).
func constIntPhi(v ssa.Value) (int64, bool) {
	if k, ok := constInt(v); ok {
		return k, true
	}
	if phi, ok := v.(*ssa.Phi); ok {
		var out int64
		for i, e := range phi.Edges {
			k, ok := constInt(e)
			if !ok || (i > 0 && k != out) {
				return 0, false
			}
			out = k
		}
		return out, len(phi.Edges) > 0
	}
	return 0, false
}
