package main

// Thorough tier of C01, C16 and C17: cross-reference of the bounds-obligation enumerator with the Go compiler's own bounds-check elimination
// report. `go build -gcflags=-d=ssa/check_bce/debug=1` compiles (it does not run) the library and lists every
// index/slice operation whose bounds check the compiler could not remove. Every such site inside a function that
// the check analyses must be a site the E3 enumerator produced an obligation for: a site the compiler still checks at
// run time but the enumerator never saw would be a hole in "every index and slice is an obligation".
// Sites the compiler proved itself are irrelevant here (E3 lists them too, and proves them).

import (
	"bytes"
	"fmt"
	"os"
	"os/exec"
	"path/filepath"
	"regexp"
	"sort"
	"strconv"
	"strings"

	"golang.org/x/tools/go/ssa"
)

var reBCE = regexp.MustCompile(`^(\S+?\.go):(\d+):(\d+): Found (IsInBounds|IsSliceInBounds)`)

func bceCrossRef(p *Prog, r *Report, fs []*ssa.Function) {
	cmd := exec.Command("go", "build", "-gcflags=-d=ssa/check_bce/debug=1", "./...")
	cmd.Dir = p.Repo
	cmd.Env = append(os.Environ(), "GOFLAGS=-mod=mod", "GOPROXY=off", "GOSUMDB=off", "GOTOOLCHAIN=local", "GOWORK=off")
	var errb bytes.Buffer
	cmd.Stderr = &errb
	if err := cmd.Run(); err != nil && !strings.Contains(errb.String(), "Found Is") {
		r.Note("BCE cross-reference skipped: go build failed: %v", err)
		return
	}
	type site struct {
		file      string
		line, col int
		kind      string
	}
	var sites []site
	for _, l := range strings.Split(errb.String(), "\n") {
		m := reBCE.FindStringSubmatch(strings.TrimSpace(l))
		if m == nil {
			continue
		}
		ln, _ := strconv.Atoi(m[2])
		co, _ := strconv.Atoi(m[3])
		f := m[1]
		if filepath.IsAbs(f) {
			if rel, err := filepath.Rel(p.Repo, f); err == nil {
				f = rel
			}
		}
		sites = append(sites, site{filepath.ToSlash(f), ln, co, m[4]})
	}
	// source ranges of the analysed functions and the lines that carry an obligation
	type rng struct {
		file     string
		from, to int
		fn       *ssa.Function
	}
	var rngs []rng
	obLines := map[string]bool{}
	callAt := map[string]bool{} // file:line:col of call sites in the analysed functions (the compiler reports inlined bodies there)
	e := p.E3()
	rel := func(fn string) string {
		if strings.HasPrefix(fn, p.Repo+"/") {
			return fn[len(p.Repo)+1:]
		}
		return fn
	}
	for _, f := range fs {
		if syn := f.Syntax(); syn != nil {
			a, b := p.Fset.Position(syn.Pos()), p.Fset.Position(syn.End())
			rngs = append(rngs, rng{rel(a.Filename), a.Line, b.Line, f})
		}
		eachCall(f, func(cs ssa.CallInstruction) {
			if ps := p.Fset.Position(cs.Pos()); ps.IsValid() {
				callAt[fmt.Sprintf("%s:%d:%d", rel(ps.Filename), ps.Line, ps.Column)] = true
			}
		})
		for _, ob := range e.fnB(f).obs {
			ps := p.Fset.Position(instrPos(ob.In))
			obLines[fmt.Sprintf("%s:%d", rel(ps.Filename), ps.Line)] = true
		}
	}
	inScope, matched, inlined := 0, 0, 0
	var unmatched []string
	for _, s := range sites {
		var owner *ssa.Function
		best := 1 << 30
		for _, g := range rngs {
			if g.file == s.file && g.from <= s.line && s.line <= g.to && g.to-g.from < best {
				owner, best = g.fn, g.to-g.from
			}
		}
		if owner == nil {
			continue
		}
		inScope++
		if obLines[fmt.Sprintf("%s:%d", s.file, s.line)] {
			matched++
		} else if callAt[fmt.Sprintf("%s:%d:%d", s.file, s.line, s.col)] {
			inlined++ // the body of an inlined callee, reported at the call's parenthesis: the callee's own obligations cover it
		} else {
			unmatched = append(unmatched, fmt.Sprintf("%s:%d:%d %s in %s", s.file, s.line, s.col, s.kind, fnName(owner)))
		}
	}
	sort.Strings(unmatched)
	r.Extra("bce_crossref", map[string]any{
		"compiler_unproven_sites": len(sites), "in_analysed_functions": inScope, "with_an_obligation_on_the_line": matched, "inlined_callee_bodies_at_call_sites": inlined, "without": unmatched,
	})
	key := "compiler bounds checks in analysed functions are all enumerated"
	if len(sites) == 0 {
		r.Note("BCE cross-reference: the compiler reported no sites (output not replayed from the build cache?)")
		return
	}
	if len(unmatched) > 0 {
		r.Undecided("BCEXREF", key, unmatched[0], fmt.Sprintf("%d index/slice operations that the compiler still bounds-checks have no BND obligation: the enumerator missed them (first: %s)", len(unmatched), unmatched[0]))
	} else {
		r.OK("BCEXREF", key, "-", fmt.Sprintf("%d sites reported by the compiler, %d inside the %d analysed functions, %d on a line that carries a BND obligation, %d inlined callee bodies reported at a call site (covered in the callee)", len(sites), inScope, len(fs), matched, inlined))
	}
	fmt.Printf(r.Prop+" BCE cross-reference: %d compiler sites, %d in scope, %d enumerated, %d inlined at call sites, %d not\n", len(sites), inScope, matched, inlined, len(unmatched))
}
