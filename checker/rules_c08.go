package main

// C08 — results do not depend on how the reader chunks its data: READ, BUFDEP.

import (
	"fmt"
	"go/token"
	"go/types"
	"strings"

	"golang.org/x/tools/go/ssa"
)

func init() { register("C08", true, checkC08) }

func checkC08(p *Prog, r *Report) {
	r.Explain("READ: every call of a Read method (through io.Reader or on a concrete reader, bufio.Reader.Read included) in the library functions reachable from the decode entry points is classified: a forwarder (inside a method named Read that returns the count and error it got), a fill loop (re-issued for the remaining window until the count is satisfied, the count accounted before the error is looked at), or a violation — a single Read whose count is then trusted makes the result depend on how the reader chunks its data. io.ReadFull/ReadAtLeast/ReadAll/CopyN and bufio Peek/Discard are all-or-error by contract. BUFDEP: nothing reachable reads how many bytes happen to be buffered ((*bufio.Reader).Buffered) or takes a chunk-sized token (ReadSlice/ReadLine/ReadBytes/ReadString whose length the delimiter decides are accepted; Buffered is not). WINSIZE: every bufio.NewReaderSize in the library is given a size that is a constant or at least computed without calling anything on a reader — the look-ahead window decides whether a long value is decoded or refused, so a size computed from the reader handed in (its Len(), Size(), dynamic type) makes the result differ between readers that deliver the same bytes. RDATEOF: every io.ReaderAt.ReadAt call compares the count it got — a full read is a success whatever error came with it (io.EOF with the last bytes is legal). SEEKREL: a Seek is a position query, a relative seek, or an absolute rewind — never derived from a Read count.")
	r.Trusted("io.ReadFull/ReadAtLeast: nil error ⇒ the window is full", "bufio.Reader.Peek/Discard all-or-error", "io.ReaderAt.ReadAt: n < len(p) ⇒ non-nil error (and n == len(p) may come with io.EOF)")
	dec, err := p.DecEntries()
	if err != nil {
		r.Fatal(err.Error())
		return
	}
	fs := p.LibReachDirect(dec)
	r.Extra("functions_analysed", len(fs))
	ruleWinSize(p, r)
	ruleReadAtEOF(p, r)
	r.Floor("RDATEOF", 1)
	ruleReadAhead(p, r)
	r.Floor("READAHEAD", 3)
	r.Floor("WINSIZE", 4)
	nRead, nSafe := 0, 0
	for _, f := range fs {
		loops := findLoops(f)
		eachCall(f, func(site ssa.CallInstruction) {
			c := site.Common()
			name, recv := "", ""
			if c.IsInvoke() {
				name, recv = c.Method.Name(), c.Value.Type().String()
			} else if sc := c.StaticCallee(); sc != nil {
				name = sc.Name()
				if sc.Signature.Recv() != nil {
					recv = sc.Signature.Recv().Type().String()
				} else if sc.Pkg != nil {
					recv = sc.Pkg.Pkg.Path()
				}
			} else {
				return
			}
			at := p.posStr(instrPos(site))
			// all-or-error helpers: counted for the evidence
			if recv == "io" && (name == "ReadFull" || name == "ReadAtLeast" || name == "ReadAll" || name == "CopyN" || name == "Copy") {
				nSafe++
				r.OK("READ", fmt.Sprintf("%s | io.%s", fnName(f), name), at, "all-or-error helper")
				return
			}
			if recv == "*bufio.Reader" && name == "Buffered" {
				r.Bad("BUFDEP", fmt.Sprintf("%s | (*bufio.Reader).Buffered", fnName(f)), at, "the number of bytes that happen to be buffered depends on how the underlying reader chunks its data; a decision based on it makes the result chunk-dependent")
				return
			}
			if name != "Read" || len(c.Args)+boolInt(c.IsInvoke()) < 2 {
				return
			}
			// must look like Read([]byte) (int, error)
			sig := c.Signature()
			if sig.Results().Len() != 2 || !isIntType(sig.Results().At(0).Type()) || !isErrorType(sig.Results().At(1).Type()) {
				return
			}
			nRead++
			key := fmt.Sprintf("%s | Read on %s", fnName(f), shortRecv(recv))
			call, _ := site.(*ssa.Call)
			if call == nil {
				r.Bad("READ", key, at, "deferred/go Read")
				return
			}
			nV, errV := tupleExtract(call, 0), tupleExtract(call, 1)
			// forwarder
			if f.Name() == "Read" && f.Signature.Recv() != nil {
				if forwardsCount(f, nV, errV) {
					// bookkeeping of the count must not be skipped when the read also returned an error
					skipped := ""
					if errV != nil {
						eachInstr(f, func(b *ssa.BasicBlock, _ int, in ssa.Instruction) {
							uses := false
							var ops []*ssa.Value
							for _, op := range in.Operands(ops) {
								if *op == ssa.Value(nV) {
									uses = true
								}
							}
							if _, isRet := in.(*ssa.Return); isRet || !uses {
								return
							}
							for _, cd := range condsAt(b) {
								if bo, ok := cd.V.(*ssa.BinOp); ok && (bo.X == ssa.Value(errV) || bo.Y == ssa.Value(errV)) {
									skipped = p.posStr(instrPos(in))
								}
							}
						})
					}
					if skipped != "" {
						r.Bad("READ", key, at, "forwarder accounts the count only when the underlying Read returned no error ("+skipped+"): a reader that delivers the last bytes together with io.EOF leaves the bookkeeping behind")
					} else {
						r.OK("READ", key, at, "forwarder: a Read method that returns the count and error of the underlying Read and accounts the count whatever the error")
					}
					return
				}
			}
			// fill loop
			var inLoop *Loop
			for _, l := range loops {
				if l.Blocks[site.Block()] {
					inLoop = l
				}
			}
			if inLoop != nil {
				if why := fillLoopOK(f, inLoop, call, nV, errV); why == "" {
					r.OK("READ", key, at, "fill loop: re-issued for the remaining window, count accounted before the error is examined")
					// (ii) a satisfied fill loop reports success: the error that arrived together with the last byte
					// (io.EOF from a reader that delivers data and EOF at once) must not be returned when everything
					// asked for was read
					k2 := fmt.Sprintf("%s | fill loop reports nil when the count is satisfied", fnName(f))
					if w := satisfiedExitErr(p, f, inLoop, errV); w == "" {
						r.OK("READ", k2, at, "the exit taken when the count is satisfied returns a nil error")
					} else {
						r.Bad("READ", k2, at, w)
					}
				} else {
					r.Bad("READ", key, at, "Read inside a loop that is not a sound fill loop: "+why)
				}
				return
			}
			r.Bad("READ", key, at, "a single Read whose count is then trusted: a reader that returns fewer bytes per call (a pipe, one byte at a time) changes the result; use io.ReadFull or a fill loop")
		})
	}
	r.Extra("read_calls", nRead)
	r.Extra("all_or_error_helpers", nSafe)
	if nRead+nSafe == 0 {
		r.Fatal("no Read call and no io.ReadFull found in the decode path (anchor lost)")
	}
	r.OK("BUFDEP", "decode path | (*bufio.Reader).Buffered", "-", fmt.Sprintf("%d functions scanned", len(fs)))
	ruleSeekRel(p, r, fs)
	r.Floor("READ", 4)
}

// satisfiedExitErr: on the loop exit that is not an error test (the count test), does a return hand back the error
// of the last Read? "" if not.
func satisfiedExitErr(p *Prog, f *ssa.Function, l *Loop, errV *ssa.Extract) string {
	if errV == nil {
		return ""
	}
	// values that may carry the Read's error: errV, phis over it, loads of a cell it is stored into
	carry := map[ssa.Value]bool{errV: true}
	cells := map[ssa.Value]bool{}
	for ch := true; ch; {
		ch = false
		eachInstr(f, func(_ *ssa.BasicBlock, _ int, in ssa.Instruction) {
			switch x := in.(type) {
			case *ssa.Phi:
				if !carry[x] {
					for _, e := range x.Edges {
						if carry[e] {
							carry[x], ch = true, true
						}
					}
				}
			case *ssa.Store:
				if carry[x.Val] && !cells[x.Addr] {
					cells[x.Addr], ch = true, true
				}
			case *ssa.UnOp:
				if x.Op == token.MUL && cells[x.X] && !carry[x] {
					carry[x], ch = true, true
				}
			}
		})
	}
	bad := ""
	for b := range l.Blocks {
		ifi, ok := b.Instrs[len(b.Instrs)-1].(*ssa.If)
		if !ok {
			continue
		}
		if isErr, _ := errBranch(ifi); isErr {
			continue
		}
		for _, s := range b.Succs {
			if l.Blocks[s] {
				continue
			}
			// the count test leaves the loop here: follow to the returns, not through further error tests' failing sides
			seen := map[*ssa.BasicBlock]bool{s: true}
			st := []*ssa.BasicBlock{s}
			for len(st) > 0 && bad == "" {
				x := st[len(st)-1]
				st = st[:len(st)-1]
				if ret, ok := x.Instrs[len(x.Instrs)-1].(*ssa.Return); ok {
					n := len(ret.Results)
					if n > 0 && isErrorType(ret.Results[n-1].Type()) {
						ev, _ := spilledResult(ret.Results[n-1], x)
						if carry[ev] {
							bad = fmt.Sprintf("after the count test at %s leaves the loop, the return at %s hands back the error of the last Read: data that arrives together with io.EOF is reported as a failure although everything asked for was read", p.posStr(instrPos(ifi)), p.posStr(instrPos(ret)))
						}
					}
					continue
				}
				succs := x.Succs
				if i2, ok := x.Instrs[len(x.Instrs)-1].(*ssa.If); ok {
					// a second test of the count after the loop (`if n <= 0 { return nil }`): on this path the loop's own
					// count test has just failed, which decides it
					if known, val := impliedByExit(ifi, boolInt(b.Succs[0] == s) == 1, i2); known {
						if val {
							succs = x.Succs[:1]
						} else {
							succs = x.Succs[1:2]
						}
					}
				}
				for _, y := range succs {
					if !seen[y] {
						seen[y] = true
						st = append(st, y)
					}
				}
			}
		}
	}
	return bad
}

// impliedByExit: the loop test `first` was left with outcome firstTrue; does that decide the comparison `second` of
// the same two operands? Relations are sets over {<, =, >}.
func impliedByExit(first *ssa.If, firstTrue bool, second *ssa.If) (known, val bool) {
	rel := func(op token.Token) (uint8, bool) {
		switch op {
		case token.LSS:
			return 1, true
		case token.EQL:
			return 2, true
		case token.GTR:
			return 4, true
		case token.LEQ:
			return 3, true
		case token.GEQ:
			return 6, true
		case token.NEQ:
			return 5, true
		}
		return 0, false
	}
	swap := func(m uint8) uint8 { return m&2 | (m&1)<<2 | (m&4)>>2 }
	a, ok1 := first.Cond.(*ssa.BinOp)
	b, ok2 := second.Cond.(*ssa.BinOp)
	if !ok1 || !ok2 {
		return false, false
	}
	fa, ok := rel(a.Op)
	if !ok {
		return false, false
	}
	if !firstTrue {
		fa = 7 &^ fa
	}
	fb, ok := rel(b.Op)
	if !ok {
		return false, false
	}
	same := func(x, y ssa.Value) bool {
		if x == y {
			return true
		}
		cx, okx := constInt(x)
		cy, oky := constInt(y)
		return okx && oky && cx == cy
	}
	switch {
	case same(a.X, b.X) && same(a.Y, b.Y):
	case same(a.X, b.Y) && same(a.Y, b.X):
		fb = swap(fb)
	default:
		return false, false
	}
	if fa&^fb == 0 {
		return true, true
	}
	if fa&fb == 0 {
		return true, false
	}
	return false, false
}

func boolInt(b bool) int {
	if b {
		return 1
	}
	return 0
}

func shortRecv(s string) string {
	if i := strings.LastIndex(s, "/"); i >= 0 {
		return s[i+1:]
	}
	return s
}

// forwardsCount: some Return of f returns exactly (n, err) of the call (possibly through named results).
func forwardsCount(f *ssa.Function, nV, errV *ssa.Extract) bool {
	if nV == nil {
		return false
	}
	ok := false
	eachInstr(f, func(_ *ssa.BasicBlock, _ int, in ssa.Instruction) {
		ret, isRet := in.(*ssa.Return)
		if !isRet || len(ret.Results) != 2 {
			return
		}
		if flowsFrom(ret.Results[0], nV, 0) {
			ok = true
		}
	})
	return ok
}

func flowsFrom(v ssa.Value, src ssa.Value, depth int) bool {
	if v == src {
		return true
	}
	if depth > 6 {
		return false
	}
	switch x := v.(type) {
	case *ssa.Phi:
		for _, e := range x.Edges {
			if flowsFrom(e, src, depth+1) {
				return true
			}
		}
	case *ssa.UnOp:
		if x.Op == token.MUL {
			if a, ok := x.X.(*ssa.Alloc); ok {
				for _, rf := range refs(a) {
					if st, ok := rf.(*ssa.Store); ok && st.Addr == ssa.Value(a) && flowsFrom(st.Val, src, depth+1) {
						return true
					}
				}
			}
		}
	case *ssa.Convert:
		return flowsFrom(x.X, src, depth+1)
	}
	return false
}

// fillLoopOK: the Read count n is used (added to a position / subtracted from the remaining amount) in the loop
// on a path that does not first branch on the error; and the loop condition depends on that accumulator.
func fillLoopOK(f *ssa.Function, l *Loop, call *ssa.Call, nV, errV *ssa.Extract) string {
	if nV == nil {
		return "the count returned by Read is discarded"
	}
	// n must feed an arithmetic update inside the loop (through phis of an if/else and conversions)
	used := false
	var users []ssa.Instruction
	seenV := map[ssa.Value]bool{}
	var follow func(v ssa.Value, d int)
	follow = func(v ssa.Value, d int) {
		if d > 6 || seenV[v] {
			return
		}
		seenV[v] = true
		for _, rf := range refs(v) {
			in := rf.(ssa.Instruction)
			if !l.Blocks[in.Block()] {
				continue
			}
			switch x := rf.(type) {
			case *ssa.BinOp:
				if x.Op == token.ADD || x.Op == token.SUB {
					used = true
					users = append(users, in)
				}
			case *ssa.Slice:
				used = true // buf = buf[n:]
				users = append(users, in)
			case *ssa.Convert:
				follow(x, d+1)
			case *ssa.ChangeType:
				follow(x, d+1)
			case *ssa.Phi:
				follow(x, d+1)
			}
		}
	}
	follow(nV, 0)
	if !used {
		return "the count is not accumulated inside the loop"
	}
	// the accounting must not be control-dependent on err == nil: the block doing the accounting must not be
	// dominated by a branch on errV that excludes the non-nil case
	if errV != nil {
		for _, in := range users {
			for _, cd := range condsAt(in.Block()) {
				if !l.Blocks[cd.At] {
					continue
				}
				bo, ok := cd.V.(*ssa.BinOp)
				if !ok {
					continue
				}
				if (bo.X == ssa.Value(errV) || bo.Y == ssa.Value(errV)) && (isNilConst(bo.X) || isNilConst(bo.Y)) {
					// accounting only on the err == nil edge drops bytes delivered together with io.EOF
					if (bo.Op == token.EQL) == cd.True {
						return "the count is only accounted when the error is nil: bytes delivered together with io.EOF are dropped"
					}
				}
			}
		}
	}
	return ""
}

// ---- SEEKREL -------------------------------------------------------------------------------------

func ruleSeekRel(p *Prog, r *Report, fs []*ssa.Function) {
	for _, f := range fs {
		eachCall(f, func(site ssa.CallInstruction) {
			c := site.Common()
			name := ""
			if c.IsInvoke() {
				name = c.Method.Name()
			} else if sc := c.StaticCallee(); sc != nil && sc.Signature.Recv() != nil {
				name = sc.Name()
			}
			if name != "Seek" {
				return
			}
			args := c.Args
			if !c.IsInvoke() {
				args = args[1:]
			}
			if len(args) != 2 {
				return
			}
			key := fmt.Sprintf("%s | Seek(%s, %s)", fnName(f), shortVal(args[0]), shortVal(args[1]))
			at := p.posStr(instrPos(site))
			// the offset must not derive from a Read count
			bad := false
			var walk func(v ssa.Value, d int)
			walk = func(v ssa.Value, d int) {
				if d > 8 || bad {
					return
				}
				if ex, ok := v.(*ssa.Extract); ok {
					if cl, ok := ex.Tuple.(*ssa.Call); ok {
						n := ""
						if cl.Call.IsInvoke() {
							n = cl.Call.Method.Name()
						} else if sc := cl.Call.StaticCallee(); sc != nil {
							n = sc.Name()
						}
						if n == "Read" {
							bad = true
						}
					}
				}
				if in, ok := v.(ssa.Instruction); ok {
					var ops []*ssa.Value
					for _, op := range in.Operands(ops) {
						if *op != nil {
							walk(*op, d+1)
						}
					}
				}
			}
			walk(args[0], 0)
			if bad {
				r.Bad("SEEKREL", key, at, "seek offset computed from the count a single Read returned: the position after it depends on the reader's chunking")
			} else {
				r.OK("SEEKREL", key, at, "offset independent of Read counts")
			}
		})
	}
}

// ruleWinSize: the size of every look-ahead buffer the library creates is a constant, or at least computed
// without asking anything of a reader.
func ruleWinSize(p *Prog, r *Report) {
	hasRead := func(t types.Type) bool {
		ms := p.SSA.MethodSets.MethodSet(t)
		for i := 0; i < ms.Len(); i++ {
			if ms.At(i).Obj().Name() == "Read" {
				if sg, ok := ms.At(i).Type().(*types.Signature); ok && sg.Params().Len() == 1 && sg.Results().Len() == 2 {
					return true
				}
			}
		}
		return false
	}
	var leaf func(v ssa.Value, d int, seen map[ssa.Value]bool) string
	leaf = func(v ssa.Value, d int, seen map[ssa.Value]bool) string {
		if seen[v] || d > 10 {
			return ""
		}
		seen[v] = true
		switch x := v.(type) {
		case *ssa.Phi:
			for _, e := range x.Edges {
				if w := leaf(e, d+1, seen); w != "" {
					return w
				}
			}
		case *ssa.BinOp:
			if w := leaf(x.X, d+1, seen); w != "" {
				return w
			}
			return leaf(x.Y, d+1, seen)
		case *ssa.Convert:
			return leaf(x.X, d+1, seen)
		case *ssa.ChangeType:
			return leaf(x.X, d+1, seen)
		case *ssa.Extract:
			return leaf(x.Tuple, d+1, seen)
		case *ssa.Call:
			c := &x.Call
			if c.IsInvoke() && hasRead(c.Value.Type()) {
				return "the result of " + c.Method.Name() + "() on a reader"
			}
			for _, a := range c.Args {
				if hasRead(a.Type()) {
					return "the result of " + calleeName(c) + " applied to a reader"
				}
			}
			if _, isB := c.Value.(*ssa.Builtin); isB {
				for _, a := range c.Args {
					if w := leaf(a, d+1, seen); w != "" {
						return w
					}
				}
			}
		}
		return ""
	}
	for _, f := range p.AllLibFns() {
		eachCall(f, func(site ssa.CallInstruction) {
			c := site.Common()
			if !isCallTo(c, "bufio.NewReaderSize") || len(c.Args) != 2 {
				return
			}
			key := fmt.Sprintf("%s | bufio.NewReaderSize", fnName(f))
			at := p.posStr(instrPos(site))
			if k, ok := constInt(c.Args[1]); ok {
				r.OK("WINSIZE", key, at, fmt.Sprintf("constant window of %d bytes", k))
				return
			}
			if w := leaf(c.Args[1], 0, map[ssa.Value]bool{}); w != "" {
				r.Bad("WINSIZE", key, at, "the look-ahead window is sized by "+w+": which values fit the window — and are decoded instead of refused — then depends on the reader the caller supplies, not on the bytes it delivers")
				return
			}
			r.OK("WINSIZE", key, at, "window size computed without asking anything of a reader")
		})
	}
}

// ruleReadAtEOF: io.ReaderAt.ReadAt may return io.EOF together with a FULL read (n == len(p)); whether it does is up
// to the reader, not to the bytes. A caller that takes every non-nil error for a failure gives different answers for
// the same bytes. Every ReadAt call in the library must therefore look at the count: the count result is compared
// (with the window length) somewhere in the function, and no failure is decided on the error alone before that.
func ruleReadAtEOF(p *Prog, r *Report) {
	n := 0
	for _, f := range p.AllLibFns() {
		eachCall(f, func(site ssa.CallInstruction) {
			c := site.Common()
			name := ""
			if c.IsInvoke() {
				name = c.Method.Name()
			} else if sc := c.StaticCallee(); sc != nil && !isRepoFn(sc) {
				name = sc.Name()
			}
			if name != "ReadAt" {
				return
			}
			call, ok := site.(*ssa.Call)
			if !ok || call.Type() == nil {
				return
			}
			tup, ok := call.Type().(*types.Tuple)
			if !ok || tup.Len() != 2 || !isIntType(tup.At(0).Type()) {
				return
			}
			n++
			key := fmt.Sprintf("%s | ReadAt: a full read is a success whatever error comes with it", fnName(f))
			at := p.posStr(instrPos(site))
			cnt := tupleExtract(call, 0)
			compared := false
			if cnt != nil {
				seen := map[ssa.Value]bool{}
				var uses func(v ssa.Value, d int)
				uses = func(v ssa.Value, d int) {
					if seen[v] || d > 4 {
						return
					}
					seen[v] = true
					for _, rf := range refs(v) {
						switch x := rf.(type) {
						case *ssa.BinOp:
							switch x.Op {
							case token.LSS, token.LEQ, token.GTR, token.GEQ, token.EQL, token.NEQ:
								compared = true
							}
						case *ssa.Phi:
							uses(x, d+1)
						case *ssa.Convert:
							uses(x, d+1)
						}
					}
				}
				uses(cnt, 0)
			}
			// and the error is looked at only where the count has already been found short: a test of the error that is
			// not under a comparison of the count (a loop that says `if err != nil { return }` before `off += n`)
			// refuses the full read that comes with io.EOF
			early := ""
			if errV := tupleExtract(call, 1); errV != nil && cnt != nil {
				var fromCnt func(v ssa.Value, d int) bool
				fromCnt = func(v ssa.Value, d int) bool {
					if d > 6 {
						return false
					}
					if v == ssa.Value(cnt) {
						return true
					}
					switch x := v.(type) {
					case *ssa.Convert:
						return fromCnt(x.X, d+1)
					case *ssa.BinOp:
						return fromCnt(x.X, d+1) || fromCnt(x.Y, d+1)
					case *ssa.Phi:
						for _, e := range x.Edges {
							if fromCnt(e, d+1) {
								return true
							}
						}
					}
					return false
				}
				eachInstr(f, func(b *ssa.BasicBlock, _ int, in ssa.Instruction) {
					ifi, ok := in.(*ssa.If)
					if !ok || early != "" {
						return
					}
					bo, ok := ifi.Cond.(*ssa.BinOp)
					if !ok || !(bo.X == ssa.Value(errV) || bo.Y == ssa.Value(errV)) || !(isNilConst(bo.X) || isNilConst(bo.Y)) {
						return
					}
					under := false
					for _, cd := range condsAt(b) {
						// a comparison made after this very call (the loop condition on the count accumulated by earlier
						// iterations does not qualify)
						if c2, ok := cd.V.(*ssa.BinOp); ok && (fromCnt(c2.X, 0) || fromCnt(c2.Y, 0)) && call.Block().Dominates(cd.At) {
							under = true
						}
					}
					if !under {
						early = p.posStr(ifi.Cond.Pos())
					}
				})
			}
			if compared && early != "" {
				r.Bad("RDATEOF", key, at, "the error of ReadAt is tested at "+early+" before the count has been compared: a reader that reports io.EOF together with the last bytes (legal for io.ReaderAt) is refused although it delivered everything asked for")
			} else if compared {
				r.OK("RDATEOF", key, at, "the count returned by ReadAt is compared before the outcome is decided")
			} else {
				r.Bad("RDATEOF", key, at, "the count returned by ReadAt is never looked at: a reader that reports io.EOF together with the last bytes (legal for io.ReaderAt) is refused although it delivered the whole window, while bytes.Reader over the same bytes succeeds")
			}
		})
	}
	if n == 0 {
		r.OK("RDATEOF", "library | no ReadAt call", "-", "nothing to decide")
	}
}
