package imagemeta_test

// Triage evidence (not a check): inputs that make the PINNED tree misbehave; each test passes on the repaired tree.
// Place in the module root and run: go test -vet=off -count=1 -run TestConfirm .

import (
	"bytes"
	"encoding/binary"
	"io"
	"strings"
	"testing"
	"testing/iotest"

	"github.com/evanoberholster/imagemeta"
	"github.com/evanoberholster/imagemeta/exif2"
	"github.com/evanoberholster/imagemeta/imagetype"
	"github.com/evanoberholster/imagemeta/meta"
	"github.com/evanoberholster/imagemeta/meta/utils"
	"github.com/rs/zerolog"
)

type ent struct {
	id, typ uint16
	count   uint32
	val     uint32
}

// tiff builds a little-endian TIFF: header, IFD0 at 8 with the entries, optional next pointer, then extra bytes.
func tiff(entries []ent, next *uint32, extra []byte) []byte {
	b := new(bytes.Buffer)
	b.WriteString("II*\x00")
	binary.Write(b, binary.LittleEndian, uint32(8))
	binary.Write(b, binary.LittleEndian, uint16(len(entries)))
	for _, e := range entries {
		binary.Write(b, binary.LittleEndian, e.id)
		binary.Write(b, binary.LittleEndian, e.typ)
		binary.Write(b, binary.LittleEndian, e.count)
		binary.Write(b, binary.LittleEndian, e.val)
	}
	if next != nil {
		binary.Write(b, binary.LittleEndian, *next)
	}
	b.Write(extra)
	return b.Bytes()
}

func noPanic(t *testing.T, name string, f func()) {
	t.Helper()
	defer func() {
		if r := recover(); r != nil {
			t.Errorf("%s: panic: %v", name, r)
		}
	}()
	f()
}

// C01: IFD offset beyond the data: readUint16 indexes the nil buffer returned with the error.
func TestConfirmReadUintAfterError(t *testing.T) {
	b := make([]byte, 32)
	copy(b, "II*\x00")
	binary.LittleEndian.PutUint32(b[4:], 30)
	noPanic(t, "Decode", func() { imagemeta.Decode(bytes.NewReader(b)) })
}

// C01: a DateTime tag (0x0132, ASCII) with 5 bytes: ParseDate indexes buf[7].
func TestConfirmShortDate(t *testing.T) {
	off := uint32(8 + 2 + 12 + 4)
	z := uint32(0)
	b := tiff([]ent{{0x0132, 2, 5, off}}, &z, append([]byte("2020:"), make([]byte, 64)...))
	noPanic(t, "Decode", func() { imagemeta.Decode(bytes.NewReader(b)) })
}

// C01/C08: un-buffered reader (exif2.Parse) with a 100-entry IFD: fastRead slices the 1024-byte scratch array to 1200.
func TestConfirmFastReadLargeIfd(t *testing.T) {
	var es []ent
	for i := 0; i < 100; i++ {
		es = append(es, ent{uint16(0x9000 + i), 3, 1, 1})
	}
	z := uint32(0)
	b := tiff(es, &z, make([]byte, 64))
	noPanic(t, "Parse", func() { exif2.Parse(bytes.NewReader(b)) })
}

// C08: exif2.Parse gives the same Make for a one-byte-at-a-time reader as for an in-memory reader.
type rs struct {
	*bytes.Reader
	chunk int
}

func (r rs) Read(p []byte) (int, error) {
	if len(p) > r.chunk {
		p = p[:r.chunk]
	}
	return r.Reader.Read(p)
}

func TestConfirmChunkedParse(t *testing.T) {
	off := uint32(8 + 2 + 12 + 4)
	z := uint32(0)
	b := tiff([]ent{{0x010f, 2, 6, off}}, &z, append([]byte("Canon\x00"), make([]byte, 64)...))
	want, err1 := exif2.Parse(bytes.NewReader(b))
	got, err2 := exif2.Parse(rs{bytes.NewReader(b), 1})
	if want.Make != "Canon" || got.Make != want.Make || (err1 == nil) != (err2 == nil) {
		t.Errorf("in-memory Make=%q err=%v, one-byte reader Make=%q err=%v", want.Make, err1, got.Make, err2)
	}
	_ = iotest.OneByteReader
}

// C04: history dependence through the stale tag slot read by nextTag: a TIFF whose IFD0 ends at end of file
// (no next-IFD pointer) returns an error on pristine state and nil after a decode that left a pending tag behind.
func TestConfirmNextTagStale(t *testing.T) {
	short := tiff([]ent{{0x0112, 3, 1, 1}, {0x0128, 3, 1, 2}}, nil, nil) // two embedded tags, file (34 bytes) ends after the entries
	outcome := func(b []byte) (res string) {
		defer func() {
			if r := recover(); r != nil {
				res = "panic"
			}
		}()
		if _, err := imagemeta.Decode(bytes.NewReader(b)); err != nil {
			return "error"
		}
		return "nil"
	}
	pristine := outcome(short)
	// history: two out-of-line tags with large offsets; decoding fails after queueing them
	hist := tiff([]ent{{0x010f, 2, 6, 0x7000}, {0x0110, 2, 6, 0x7100}}, nil, nil)
	outcome(hist)
	after := outcome(short)
	if pristine != after {
		t.Errorf("same bytes, different outcome: on pristine state %s, after another decode %s", pristine, after)
	}
}

// C01: Nikon maker note whose 18-byte header cannot be read: readMakerNotes slices the nil buffer.
func TestConfirmMakerNoteAfterError(t *testing.T) {
	// IFD0: Make="NIKON CORPORATION" (out of line), ExifTag -> Exif IFD with MakerNote (undefined, 32 bytes) at an offset near EOF
	b := new(bytes.Buffer)
	b.WriteString("II*\x00")
	le := binary.LittleEndian
	binary.Write(b, le, uint32(8))
	binary.Write(b, le, uint16(2))
	w := func(id, typ uint16, count, val uint32) {
		binary.Write(b, le, id)
		binary.Write(b, le, typ)
		binary.Write(b, le, count)
		binary.Write(b, le, val)
	}
	w(0x010f, 2, 18, 38) // Make at 38
	w(0x8769, 4, 1, 56)  // Exif IFD at 56
	binary.Write(b, le, uint32(0))
	b.WriteString("NIKON CORPORATION\x00") // 38..55
	binary.Write(b, le, uint16(1))         // Exif IFD: 1 entry
	w(0x927c, 7, 32, 74)                   // MakerNote, 32 bytes at 74
	binary.Write(b, le, uint32(0))
	// the file ends here: none of the 18 header bytes exist
	noPanic(t, "Parse", func() { exif2.Parse(bytes.NewReader(b.Bytes())) })
}

// C01: SubIFDs (0x014a, LONG) with a count whose byte size wraps in uint32 (0x40000002*4 = 8):
// readSubIfds read 8 bytes and then decoded buf[8:].
func TestConfirmSubIfdCountOverflow(t *testing.T) {
	off := uint32(8 + 2 + 12 + 4)
	z := uint32(0)
	b := tiff([]ent{{0x014a, 4, 0x40000002, off}}, &z, make([]byte, 64))
	noPanic(t, "Decode", func() { imagemeta.Decode(bytes.NewReader(b)) })
}

// C03: a one-character ASCII value ("A\0") was reported as empty: the trailing-NUL trim scanned down to index 1 only.
func TestConfirmOneCharString(t *testing.T) {
	// Make = "A" (embedded, count 2), Software = "B" out of line is not possible (count 2 fits), so test embedded only
	b := tiff([]ent{{0x010F, 2, 2, 0x00000041}, {0x0131, 2, 3, 0x00004342}}, new(uint32), make([]byte, 16))
	e, err := imagemeta.DecodeTiff(bytes.NewReader(b))
	if err != nil || e.Make != "A" || e.Software != "BC" {
		t.Errorf("err=%v Make=%q Software=%q, want \"A\" and \"BC\"", err, e.Make, e.Software)
	}
}

// C03: an ASCII value longer than the 4 KiB look-ahead buffer was reported as its first 4096 bytes, without an error.
func TestConfirmLongString(t *testing.T) {
	for _, n := range []int{4095, 4096, 4097, 5000, 9000} {
		long := strings.Repeat("x", n)
		payload := cStream(8, []cEnt{cASCII(0x010f, "Canon"), cASCII(0x010e, long), cASCII(0x0131, "SoftwareName 1.0")})
		tf := append(append([]byte{}, payload...), make([]byte, 64)...)
		e, err := imagemeta.DecodeTiff(bytes.NewReader(tf))
		if err != nil || e.ImageDescription != long || e.Software != "SoftwareName 1.0" {
			t.Errorf("n=%d: err=%v len(ImageDescription)=%d software=%q", n, err, len(e.ImageDescription), e.Software)
		}
	}
}

// C08: the unbuffered discard returned the io.EOF that came with the last bytes although the skip was complete:
// DecodeJPEGIfd over a plain reader holding exactly the Exif block failed where bytes.Reader succeeded.
func TestConfirmDiscardEOFWithLastBytes(t *testing.T) {
	b := tiff([]ent{{0x010F, 2, 4, 0x00434241}}, new(uint32), make([]byte, 32))
	h := meta.NewExifHeader(utils.LittleEndian, 8, 0, uint32(len(b)), imagetype.ImageJPEG)
	for name, mk := range map[string]func() io.Reader{
		"bytes.Reader":  func() io.Reader { return bytes.NewReader(b) },
		"DataErrReader": func() io.Reader { return iotest.DataErrReader(bytes.NewReader(b)) },
	} {
		ir := exif2.NewIfdReader(zerolog.Nop())
		err := ir.DecodeJPEGIfd(struct{ io.Reader }{mk()}, h)
		if err != nil || ir.Exif.Make != "ABC" {
			t.Errorf("%s: err=%v Make=%q", name, err, ir.Exif.Make)
		}
		ir.Close()
	}
}

// C03 SUBSEC: SubSecTime holds fraction digits; only 3- and 6-digit values came out right.
func TestConfirmSubSecDigits(t *testing.T) {
	for _, c := range []struct {
		digits string
		ms     int
	}{{"5", 500}, {"45", 450}, {"123", 123}, {"1234", 123}, {"123456", 123}} {
		val := append([]byte(c.digits), 0)
		date := cASCII(0x0132, "2020:01:02 03:04:05")
		sub := cEnt{0x9290, 2, uint32(len(val)), val}
		exifIFD := cIFD(200, []cEnt{sub})
		ptr := make([]byte, 4)
		binary.LittleEndian.PutUint32(ptr, 200)
		p := cStream(8, []cEnt{date, {0x8769, 4, 1, ptr}})
		p = append(p, make([]byte, 200-len(p))...)
		p = append(p, exifIFD...)
		p = append(p, make([]byte, 64)...)
		e, err := imagemeta.DecodeTiff(bytes.NewReader(p))
		if err != nil {
			t.Fatalf("%q: %v", c.digits, err)
		}
		if got := e.ModifyDate().Nanosecond() / 1e6; got != c.ms {
			t.Errorf("SubSecTime %q: %d ms, want %d", c.digits, got, c.ms)
		}
	}
}

// Recorded, not repaired (C03 NARROWV): 16-bit dimension fields and the 8+8-bit exposure bias wrap.
func TestRecordedExifNarrowFields(t *testing.T) {
	w := make([]byte, 4)
	binary.LittleEndian.PutUint32(w, 70000)
	rat := make([]byte, 8)
	binary.LittleEndian.PutUint32(rat, uint32(0xFFFFFFFF-200+1)) // -200
	binary.LittleEndian.PutUint32(rat[4:], 100)
	exifIFD := cIFD(200, []cEnt{{0x9204, 10, 1, rat}})
	ptr := make([]byte, 4)
	binary.LittleEndian.PutUint32(ptr, 200)
	p := cStream(8, []cEnt{{0x0100, 4, 1, w}, {0x8769, 4, 1, ptr}})
	p = append(p, make([]byte, 200-len(p))...)
	p = append(p, exifIFD...)
	p = append(p, make([]byte, 64)...)
	e, err := imagemeta.DecodeTiff(bytes.NewReader(p))
	if err != nil {
		t.Fatal(err)
	}
	if e.ImageWidth == 4464 {
		t.Errorf("ImageWidth 70000 decoded as %d", e.ImageWidth)
	}
	if s := e.ExposureBias.String(); s != "-200/100" && s != "-2/1" {
		t.Errorf("ExposureBiasValue -200/100 decoded as %s", s)
	}
}
