package imagemeta_test

// Triage evidence (not a check) for the value-type repairs (C16/C17). Place in the module root.

import (
	"bytes"
	"encoding/binary"

	"github.com/evanoberholster/imagemeta"
	"testing"

	"github.com/evanoberholster/imagemeta/imagehash"
	"github.com/evanoberholster/imagemeta/meta"
	"github.com/evanoberholster/imagemeta/meta/canon"
)

// C17: negative values of the int16 enums indexed the offset table; FocusMode 3..6 sliced a 61-byte string up to 73.
func TestConfirmCanonStringers(t *testing.T) {
	noPanic(t, "ContinuousDrive(-1)", func() {
		if s := canon.ContinuousDrive(-1).String(); s != "Unknown" {
			t.Errorf("ContinuousDrive(-1) = %q", s)
		}
	})
	noPanic(t, "FocusMode(-3)", func() {
		if s := canon.FocusMode(-3).String(); s != "Unknown" {
			t.Errorf("FocusMode(-3) = %q", s)
		}
	})
	want := map[canon.FocusMode]string{0: "One-shot AF", 1: "AI Servo AF", 2: "AI Focus AF", 3: "Manual Focus", 4: "Single", 5: "Continuous", 6: "Manual Focus", 16: "Pan Focus", 519: "Movie Servo AF", 7: "Unknown"}
	for v, w := range want {
		noPanic(t, "FocusMode", func() {
			if s := v.String(); s != w {
				t.Errorf("FocusMode(%d) = %q, want %q", v, s, w)
			}
		})
	}
}

// C16: text decoders panicked on short input; "1/0" divided by zero.
func TestConfirmValueParsersTotal(t *testing.T) {
	noPanic(t, "ExposureBias.UnmarshalText(nil)", func() { var e meta.ExposureBias; e.UnmarshalText(nil) })
	noPanic(t, "ExposureBias.UnmarshalText(+)", func() { var e meta.ExposureBias; e.UnmarshalText([]byte("+")) })
	noPanic(t, "FocalLength.UnmarshalText(m)", func() { var f meta.FocalLength; f.UnmarshalText([]byte("m")) })
	noPanic(t, "FocalLength.UnmarshalText()", func() { var f meta.FocalLength; f.UnmarshalText(nil) })
	noPanic(t, "Aperture.UnmarshalText(1/0)", func() { var a meta.Aperture; a.UnmarshalText([]byte("1/0")) })
}

func TestConfirmPHashDecodeShort(t *testing.T) {
	noPanic(t, "PHash64.Decode(short)", func() { var h imagehash.PHash64; h.Decode([]byte{1, 2, 3}) })
	noPanic(t, "PHash256.Decode(short)", func() { var h imagehash.PHash256; h.Decode(make([]byte, 20)) })
	noPanic(t, "Aperture.ParseString(1/0)", func() { var a meta.Aperture; a.ParseString([]byte("1/0")) })
}

// C03 (recorded in known_findings.json, not repaired — this test FAILS on the current tree by design): the make is reported through a name table that normalises three spellings.
func TestRecordedMakeNormalised(t *testing.T) {
	for _, mk := range []string{"SONY", "HUAWEI", "NIKON CORPORATION", "Canon"} {
		e, err := imagemeta.DecodeTiff(bytes.NewReader(tiffMake(binary.LittleEndian, mk)))
		if err != nil || e.Make != mk {
			t.Errorf("Make %q decoded as %q (err %v)", mk, e.Make, err)
		}
	}
}

// C17 CMPNAME: the name of compression scheme 65535 was a garbled literal.
func TestConfirmCompressionNames(t *testing.T) {
	if got := meta.Compression(65535).String(); got != "Pentax PEF Compressed" {
		t.Errorf("Compression(65535) = %q", got)
	}
}

// C16 UTSET: ExposureBias.UnmarshalText accepted "0/0" (the text of the zero value) without assigning, so the zero
// value did not survive a round trip into a variable that was in use.
func TestConfirmExposureBiasZeroIntoUsedVariable(t *testing.T) {
	txt, err := meta.ExposureBias(0).MarshalText()
	if err != nil {
		t.Fatal(err)
	}
	eb := meta.ExposureBias(0x0103)
	if err := eb.UnmarshalText(txt); err != nil || eb != 0 {
		t.Errorf("UnmarshalText(%q) into a used variable: %v, err=%v, want 0", txt, eb, err)
	}
}
