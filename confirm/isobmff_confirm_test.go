package imagemeta_test

// Triage evidence (not a check) for the isobmff repairs. Place in the module root.

import (
	"bytes"
	"encoding/binary"
	"io"
	"os"
	"testing"
	"time"

	"github.com/evanoberholster/imagemeta"
	"github.com/evanoberholster/imagemeta/isobmff"
	"github.com/evanoberholster/imagemeta/meta"
	"github.com/rs/zerolog"
)

func box(typ string, payload ...[]byte) []byte {
	var p []byte
	for _, x := range payload {
		p = append(p, x...)
	}
	b := make([]byte, 8, 8+len(p))
	binary.BigEndian.PutUint32(b, uint32(8+len(p)))
	copy(b[4:], typ)
	return append(b, p...)
}

func ftyp(brand string) []byte {
	return box("ftyp", []byte(brand), []byte{0, 0, 0, 0}, []byte(brand), []byte("mif1"))
}

func be16(v uint16) []byte { b := make([]byte, 2); binary.BigEndian.PutUint16(b, v); return b }
func be32(v uint32) []byte { b := make([]byte, 4); binary.BigEndian.PutUint32(b, v); return b }

func within(t *testing.T, name string, d time.Duration, f func()) {
	t.Helper()
	done := make(chan string, 1)
	go func() {
		defer func() {
			if r := recover(); r != nil {
				done <- "panic"
				return
			}
			done <- "ok"
		}()
		f()
	}()
	select {
	case r := <-done:
		if r != "ok" {
			t.Errorf("%s: %s", name, r)
		}
	case <-time.After(d):
		t.Errorf("%s: did not return within %v", name, d)
	}
}

// C01: iloc with offset_size 0 (legal): uintN panicked with "error here".
func TestConfirmIlocOffsetSizeZero(t *testing.T) {
	iloc := box("iloc", be32(0), []byte{0x04, 0x00}, be16(1), // version 0, offset_size 0, length_size 4, base_offset_size 0, 1 item
		be16(1), be16(0), be16(1), be32(10)) // item 1, dri 0, 1 extent, length 10
	file := append(ftyp("avif"), box("meta", be32(0), iloc)...)
	file = append(file, make([]byte, 64)...)
	within(t, "Decode", 5*time.Second, func() { imagemeta.Decode(bytes.NewReader(file)) })
}

// C02: an infe entry of size 0 never advanced.
func TestConfirmInfeSizeZero(t *testing.T) {
	iinf := box("iinf", be32(0), be16(1), make([]byte, 32)) // entry: size 0, type 0, ...
	file := append(ftyp("avif"), box("meta", be32(0), iinf)...)
	file = append(file, make([]byte, 64)...)
	within(t, "Decode", 5*time.Second, func() { imagemeta.Decode(bytes.NewReader(file)) })
}

// C15: a truncated file made ReadMetadata dump bytes to standard output (and return nil).
func TestConfirmReadMetadataPrints(t *testing.T) {
	file := append(ftyp("crx "), make([]byte, 200)...) // no further box: all zero → readBox ok? use short tail instead
	file = append(ftyp("crx "), []byte{0, 0, 0}...)
	old := os.Stdout
	r, w, _ := os.Pipe()
	os.Stdout = w
	_, err := imagemeta.DecodeCR3(bytes.NewReader(file))
	w.Close()
	os.Stdout = old
	out, _ := io.ReadAll(r)
	if len(out) != 0 {
		t.Errorf("library wrote %d bytes to standard output: %q", len(out), out)
	}
	if err == nil {
		t.Errorf("truncated file decoded without error")
	}
}

// C11: an unknown top-level box was not skipped: the next ReadMetadata parsed its payload as a box header.
func TestConfirmTopLevelUnknownBoxClosed(t *testing.T) {
	u := meta.UUIDFromString("be7acfcb-97a9-42e8-9c71-999491e3afac")
	ub, _ := u.MarshalBinary()
	xp := box("uuid", ub, []byte("<x:xmpmeta></x:xmpmeta>"))
	file := append(ftyp("crx "), box("free", bytes.Repeat([]byte{'A'}, 24))...)
	file = append(file, xp...)
	file = append(file, make([]byte, 64)...)
	r := isobmff.NewReader(bytes.NewReader(file))
	defer r.Close()
	called := false
	r.XMPReader = func(io.Reader) error { called = true; return nil }
	if err := r.ReadFTYP(); err != nil {
		t.Fatal(err)
	}
	r.ReadMetadata() // free
	r.ReadMetadata() // uuid xpacket
	if !called {
		t.Errorf("XMP callback not invoked for the box that follows a top-level 'free' box")
	}
}

// C15/C01: at info level a CTBO count above 5 indexed past the 5-element item array.
func TestConfirmCTBOCountInfoLevel(t *testing.T) {
	u := meta.UUIDFromString("85c0b687-820f-11e0-8111-f4ce462b6a48")
	ub, _ := u.MarshalBinary()
	item := func(i uint32) []byte {
		b := make([]byte, 20)
		binary.BigEndian.PutUint32(b, i)
		b[11] = 1
		b[19] = 1
		return b
	}
	ctbo := box("CTBO", be32(9), item(1), item(2), item(3), item(4), item(5))
	file := append(ftyp("crx "), box("moov", box("uuid", ub, ctbo))...)
	file = append(file, make([]byte, 64)...)
	run := func() (res string) {
		defer func() {
			if r := recover(); r != nil {
				res = "panic"
			}
		}()
		_, err := imagemeta.DecodeCR3(bytes.NewReader(file))
		if err != nil {
			return "error"
		}
		return "nil"
	}
	def := run()
	imagemeta.SetLogger(io.Discard, zerolog.InfoLevel)
	info := run()
	imagemeta.SetLogger(io.Discard, zerolog.PanicLevel)
	if def != info {
		t.Errorf("default level: %s, info level: %s", def, info)
	}
}

// C11/C08: the reader handed to the XMP callback refused any Read larger than what is left in the box,
// so a 500-byte xpacket could not be read through a bufio.Reader (0 bytes, "remain length insufficient").
func TestConfirmBoxReadTail(t *testing.T) {
	u := meta.UUIDFromString("be7acfcb-97a9-42e8-9c71-999491e3afac")
	ub, _ := u.MarshalBinary()
	payload := bytes.Repeat([]byte("x"), 500)
	file := append(ftyp("crx "), box("uuid", ub, payload)...)
	file = append(file, make([]byte, 64)...)
	r := isobmff.NewReader(bytes.NewReader(file))
	defer r.Close()
	var got []byte
	var rerr error
	r.XMPReader = func(rd io.Reader) error { got, rerr = io.ReadAll(rd); return nil }
	if err := r.ReadFTYP(); err != nil {
		t.Fatal(err)
	}
	r.ReadMetadata()
	if !bytes.Equal(got, payload) || rerr != nil {
		t.Errorf("callback read %d of %d payload bytes, err=%v", len(got), len(payload), rerr)
	}
}

// C14: a PRVW size field of 1 GiB in a file of a few hundred bytes made RenderPreview allocate 1 GiB.
func TestConfirmPreviewAllocation(t *testing.T) {
	u := meta.UUIDFromString("eaf42b5e-1c98-4b88-b9fb-b7dc406e4d16")
	ub, _ := u.MarshalBinary()
	prvwPayload := make([]byte, 24)
	binary.BigEndian.PutUint32(prvwPayload[12:], 0x3fffffff) // the size field sits 20 bytes after the start of the PRVW box
	prvw := box("PRVW", prvwPayload, []byte("JPEGDATA"))
	file := append(ftyp("crx "), box("uuid", ub, make([]byte, 8), prvw)...)
	file = append(file, make([]byte, 64)...)
	allocs := testing.AllocsPerRun(1, func() {})
	_ = allocs
	var before, after runtimeMem
	before.read()
	r := isobmff.NewReader(bytes.NewReader(file))
	defer r.Close()
	r.PreviewImageReader = func(rd io.Reader, h meta.PreviewHeader) error {
		return previewRender(rd, h)
	}
	if err := r.ReadFTYP(); err != nil {
		t.Fatal(err)
	}
	r.ReadMetadata()
	after.read()
	if d := after.total - before.total; d > 64<<20 {
		t.Errorf("decoding a %d-byte file allocated %d MiB", len(file), d>>20)
	}
}

// C11 CLOSE (failing paths): a top-level Canon preview uuid box whose payload is too short for the PRVW header
// makes readPreview fail; ReadMetadata returned that error without skipping the rest of the box, so the next call
// parsed the box's payload as a box header instead of finding the xpacket box that follows.
func TestConfirmTopLevelBoxClosedAfterHandlerError(t *testing.T) {
	prvwUUID := []byte{0xea, 0xf4, 0x2b, 0x5e, 0x1c, 0x98, 0x4b, 0x88, 0xb9, 0xfb, 0xb7, 0xdc, 0x40, 0x6e, 0x4d, 0x16}
	xpktUUID := []byte{0xbe, 0x7a, 0xcf, 0xcb, 0x97, 0xa9, 0x42, 0xe8, 0x9c, 0x71, 0x99, 0x94, 0x91, 0xe3, 0xaf, 0xac}
	packet := []byte("<x:xmpmeta>0123456789</x:xmpmeta>")
	file := bytes.Join([][]byte{
		ftyp("crx "),
		box("uuid", prvwUUID, []byte{0, 0, 0, 0, 0, 0, 0, 1, 0, 0, 0, 12, 'f', 'r', 'e', 'e', 1, 2, 3, 4}), // 8 bytes, then a box that is not PRVW
		box("uuid", xpktUUID, packet),
	}, nil)
	var got []byte
	r := isobmff.NewReader(bytes.NewReader(file))
	defer r.Close()
	r.XMPReader = func(rd io.Reader) error { var err error; got, err = io.ReadAll(rd); return err }
	r.PreviewImageReader = func(rd io.Reader, h meta.PreviewHeader) error { return nil }
	if err := r.ReadFTYP(); err != nil {
		t.Fatal(err)
	}
	if err := r.ReadMetadata(); err == nil {
		t.Fatal("the malformed preview box was expected to fail")
	}
	if err := r.ReadMetadata(); err != nil {
		t.Fatalf("second top-level box: %v (the reader was left inside the first one)", err)
	}
	if !bytes.Equal(got, packet) {
		t.Fatalf("xpacket callback got %q, want %q", got, packet)
	}
}

// C11 NONNEG: an iloc entry that places the Exif item BEFORE the mdat payload makes newExifBox ask the mdat box to
// skip a negative count. (*box).Discard accepted it (remain >= n holds for every negative n) and enlarged the
// remaining size of the box; the close that follows then ran past the end of the mdat box, and the xpacket box
// behind it was never delivered.
func TestConfirmNegativeDiscard(t *testing.T) {
	xpktUUID := []byte{0xbe, 0x7a, 0xcf, 0xcb, 0x97, 0xa9, 0x42, 0xe8, 0x9c, 0x71, 0x99, 0x94, 0x91, 0xe3, 0xaf, 0xac}
	packet := []byte("<x:xmpmeta>0123456789</x:xmpmeta>")
	iloc := box("iloc", be32(0), []byte{0x44, 0x00}, be16(1), // version 0, offset_size 4, length_size 4, 1 item
		be16(0), be16(0), be16(1), be32(20), be32(32)) // item 0 (the default Exif id), 1 extent at file offset 20
	file := bytes.Join([][]byte{
		ftyp("heic"),
		box("meta", be32(0), iloc),
		box("mdat", bytes.Repeat([]byte{0xAA}, 64)),
		box("uuid", xpktUUID, packet),
		make([]byte, 64),
	}, nil)
	var got []byte
	r := isobmff.NewReader(bytes.NewReader(file))
	defer r.Close()
	r.XMPReader = func(rd io.Reader) error { var err error; got, err = io.ReadAll(rd); return err }
	r.ExifReader = func(rd io.Reader, h meta.ExifHeader) error { return nil }
	if err := r.ReadFTYP(); err != nil {
		t.Fatal(err)
	}
	r.ReadMetadata() // meta
	r.ReadMetadata() // mdat: the item offset lies before the box, an error is fine
	if err := r.ReadMetadata(); err != nil {
		t.Fatalf("box after mdat: %v (the reader ran past the end of the mdat box)", err)
	}
	if !bytes.Equal(got, packet) {
		t.Fatalf("xpacket callback got %q, want %q", got, packet)
	}
}

// C11 CLOSE (panic path): a version-2 infe entry of item type mime that is 21 bytes long makes readInfe slice
// buf[21:20]; ReadMetadata recovered the panic into an error but left the reader inside the meta box, so the next
// call parsed the rest of the box as a box header and the xpacket box behind it was not delivered.
func TestConfirmTopLevelBoxClosedAfterRecoveredPanic(t *testing.T) {
	xpktUUID := []byte{0xbe, 0x7a, 0xcf, 0xcb, 0x97, 0xa9, 0x42, 0xe8, 0x9c, 0x71, 0x99, 0x94, 0x91, 0xe3, 0xaf, 0xac}
	packet := []byte("<x:xmpmeta>0123456789</x:xmpmeta>")
	infe := box("infe", []byte{2, 0, 0, 0}, be16(1), be16(0), []byte("mime"), []byte{0}) // 21 bytes
	file := bytes.Join([][]byte{
		ftyp("heic"),
		box("meta", be32(0), box("iinf", be32(0), be16(1), infe), box("free", make([]byte, 24))),
		box("uuid", xpktUUID, packet),
		make([]byte, 64),
	}, nil)
	var got []byte
	r := isobmff.NewReader(bytes.NewReader(file))
	defer r.Close()
	r.XMPReader = func(rd io.Reader) error { var err error; got, err = io.ReadAll(rd); return err }
	r.ExifReader = func(rd io.Reader, h meta.ExifHeader) error { return nil }
	if err := r.ReadFTYP(); err != nil {
		t.Fatal(err)
	}
	if err := r.ReadMetadata(); err == nil {
		t.Log("the malformed infe entry was expected to fail (not essential)")
	}
	if err := r.ReadMetadata(); err != nil {
		t.Fatalf("second top-level box: %v (the reader was left inside the first one)", err)
	}
	if !bytes.Equal(got, packet) {
		t.Fatalf("xpacket callback got %q, want %q", got, packet)
	}
}
