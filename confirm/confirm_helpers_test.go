package imagemeta_test

import (
	"io"
	"runtime"

	"github.com/evanoberholster/imagemeta/meta"
	"github.com/evanoberholster/imagemeta/preview"
)

type runtimeMem struct{ total uint64 }

func (m *runtimeMem) read() {
	var s runtime.MemStats
	runtime.ReadMemStats(&s)
	m.total = s.TotalAlloc
}

func previewRender(r io.Reader, h meta.PreviewHeader) error {
	pr := preview.NewPreviewReader(preview.Logger)
	return pr.RenderPreview(r, h)
}
