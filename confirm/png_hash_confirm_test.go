package imagemeta_test

// Triage evidence (not a check) for the png / imagehash / time-zone repairs. Place in the module root.

import (
	"bytes"
	"encoding/binary"
	"hash/crc32"
	"image"
	"image/color"
	"io"
	"testing"
	"testing/iotest"

	"github.com/evanoberholster/imagemeta"
	"github.com/evanoberholster/imagemeta/imagehash"
	"github.com/evanoberholster/imagemeta/imagehash/transforms32"
	"github.com/evanoberholster/imagemeta/imagetype"
)

func pngChunk(typ string, data []byte) []byte {
	b := new(bytes.Buffer)
	binary.Write(b, binary.BigEndian, uint32(len(data)))
	b.WriteString(typ)
	b.Write(data)
	binary.Write(b, binary.BigEndian, crc32.ChecksumIEEE(append([]byte(typ), data...)))
	return b.Bytes()
}

func pngWith(exif []byte) []byte {
	b := new(bytes.Buffer)
	b.WriteString("\x89PNG\r\n\x1a\n")
	b.Write(pngChunk("IHDR", make([]byte, 13)))
	b.Write(pngChunk("eXIf", exif))
	b.Write(pngChunk("IEND", nil))
	return b.Bytes()
}

// tiffMake builds a TIFF with one ASCII Make tag (0x010F) in the given order.
func tiffMake(bo binary.ByteOrder, mk string) []byte {
	b := new(bytes.Buffer)
	if bo == binary.ByteOrder(binary.LittleEndian) {
		b.WriteString("II*\x00")
	} else {
		b.WriteString("MM\x00*")
	}
	binary.Write(b, bo, uint32(8))
	binary.Write(b, bo, uint16(1))
	binary.Write(b, bo, uint16(0x010F))
	binary.Write(b, bo, uint16(2))
	binary.Write(b, bo, uint32(len(mk)+1))
	binary.Write(b, bo, uint32(26))
	binary.Write(b, bo, uint32(0))
	b.WriteString(mk)
	b.WriteByte(0)
	b.Write(make([]byte, 16))
	return b.Bytes()
}

// C06/C07: a little-endian eXIf chunk was decoded with the constants (BigEndian, 8).
func TestConfirmPngLittleEndian(t *testing.T) {
	for _, bo := range []binary.ByteOrder{binary.BigEndian, binary.LittleEndian} {
		e, err := imagemeta.DecodePng(bytes.NewReader(pngWith(tiffMake(bo, "Canon"))))
		if err != nil || e.Make != "Canon" {
			t.Errorf("%v eXIf: Make=%q err=%v, want Canon", bo, e.Make, err)
		}
	}
}

// C08: a reader that delivers one byte per Read made DecodePng report "no Exif".
func TestConfirmPngOneByteReader(t *testing.T) {
	_ = iotest.OneByteReader
	data := pngWith(tiffMake(binary.BigEndian, "Canon"))
	e, err := imagemeta.DecodePng(rs{bytes.NewReader(data), 1})
	if err != nil || e.Make != "Canon" {
		t.Errorf("one byte per Read: Make=%q err=%v, want Canon", e.Make, err)
	}
}

func gray(w, h int, seed byte) *image.Gray {
	g := image.NewGray(image.Rect(0, 0, w, h))
	for i := range g.Pix {
		g.Pix[i] = byte(i*7) ^ seed
	}
	return g
}

// C19/C04: nil, 32x32 and 64x32 images were accepted; the hash came from the pooled buffer of an earlier call.
func TestConfirmPHashSizeGuard(t *testing.T) {
	noPanic(t, "NewPHash64(nil)", func() {
		if _, err := imagehash.NewPHash64(nil); err == nil {
			t.Errorf("NewPHash64(nil): no error")
		}
	})
	noPanic(t, "NewPHash256Alt(nil)", func() {
		if _, err := imagehash.NewPHash256Alt(nil); err == nil {
			t.Errorf("NewPHash256Alt(nil): no error")
		}
	})
	for _, sz := range [][2]int{{32, 32}, {64, 32}, {128, 128}, {64, 65}} {
		img := gray(sz[0], sz[1], 3)
		noPanic(t, "wrong size", func() {
			if _, err := imagehash.NewPHash64(img); err == nil {
				t.Errorf("NewPHash64(%dx%d): accepted", sz[0], sz[1])
			}
			if _, err := imagehash.NewPHash64Alt(img); err == nil {
				t.Errorf("NewPHash64Alt(%dx%d): accepted", sz[0], sz[1])
			}
		})
	}
}

// C19/C20: a 64x64 sub-image whose rectangle starts at (20,20) hashed differently from the same pixels at the origin.
func TestConfirmPHashSubImageOrigin(t *testing.T) {
	big := image.NewRGBA(image.Rect(0, 0, 100, 100))
	for y := 0; y < 100; y++ {
		for x := 0; x < 100; x++ {
			big.Set(x, y, color.RGBA{uint8(x * y), uint8(3*x + y), uint8(x ^ y), 255})
		}
	}
	sub := big.SubImage(image.Rect(20, 20, 84, 84)).(*image.RGBA)
	flat := image.NewRGBA(image.Rect(0, 0, 64, 64))
	for y := 0; y < 64; y++ {
		for x := 0; x < 64; x++ {
			flat.Set(x, y, big.At(20+x, 20+y))
		}
	}
	h1, err1 := imagehash.NewPHash64(sub)
	h2, err2 := imagehash.NewPHash64(flat)
	if err1 != nil || err2 != nil || h1 != h2 {
		t.Errorf("NewPHash64: sub-image %v (%v) != same pixels at origin %v (%v)", h1, err1, h2, err2)
	}
	a1, err1 := imagehash.NewPHash64Alt(sub)
	a2, err2 := imagehash.NewPHash64Alt(flat)
	if err1 != nil || err2 != nil || a1 != a2 {
		t.Errorf("NewPHash64Alt: sub-image %v (%v) != same pixels at origin %v (%v)", a1, err1, a2, err2)
	}
	// YCbCr 4:4:4, portable path
	yb := image.NewYCbCr(image.Rect(0, 0, 100, 100), image.YCbCrSubsampleRatio444)
	for i := range yb.Y {
		yb.Y[i] = byte(i * 31)
	}
	for i := range yb.Cb {
		yb.Cb[i], yb.Cr[i] = byte(i*5), byte(i*11)
	}
	ysub := yb.SubImage(image.Rect(20, 20, 84, 84)).(*image.YCbCr)
	yflat := image.NewYCbCr(image.Rect(0, 0, 64, 64), image.YCbCrSubsampleRatio444)
	for y := 0; y < 64; y++ {
		for x := 0; x < 64; x++ {
			yflat.Y[yflat.YOffset(x, y)] = yb.Y[yb.YOffset(20+x, 20+y)]
			yflat.Cb[yflat.COffset(x, y)] = yb.Cb[yb.COffset(20+x, 20+y)]
			yflat.Cr[yflat.COffset(x, y)] = yb.Cr[yb.COffset(20+x, 20+y)]
		}
	}
	noPanic(t, "YCbCr sub-image", func() {
		y1, e1 := imagehash.NewPHash64(ysub)
		y2, e2 := imagehash.NewPHash64(yflat)
		if e1 != nil || e2 != nil || y1 != y2 {
			t.Errorf("NewPHash64 YCbCr: sub-image %v (%v) != same pixels at origin %v (%v)", y1, e1, y2, e2)
		}
	})
}

// C04: the zone name of a decode depended on which OffsetTime string had been decoded first for that offset.
func TestConfirmZoneNameHistory(t *testing.T) {
	mk := func(off string) []byte {
		bo := binary.LittleEndian
		b := new(bytes.Buffer)
		b.WriteString("II*\x00")
		binary.Write(b, bo, uint32(8))
		binary.Write(b, bo, uint16(1))
		binary.Write(b, bo, uint16(0x8769)) // ExifIFD pointer
		binary.Write(b, bo, uint16(4))
		binary.Write(b, bo, uint32(1))
		binary.Write(b, bo, uint32(26))
		binary.Write(b, bo, uint32(0))
		// ExifIFD at 26: DateTimeOriginal (0x9003) at 68, OffsetTimeOriginal (0x9011) at 88
		binary.Write(b, bo, uint16(2))
		binary.Write(b, bo, uint16(0x9003))
		binary.Write(b, bo, uint16(2))
		binary.Write(b, bo, uint32(20))
		binary.Write(b, bo, uint32(56))
		binary.Write(b, bo, uint16(0x9011))
		binary.Write(b, bo, uint16(2))
		binary.Write(b, bo, uint32(7))
		binary.Write(b, bo, uint32(76))
		binary.Write(b, bo, uint32(0))
		b.WriteString("2020:01:02 03:04:05\x00")
		b.WriteString(off + "\x00")
		b.Write(make([]byte, 32))
		return b.Bytes()
	}
	// offset +07:15 is unlikely to have been cached by another test
	e1, err1 := imagemeta.DecodeTiff(bytes.NewReader(mk("+ 7:15")))
	e2, err2 := imagemeta.DecodeTiff(bytes.NewReader(mk("+07:15")))
	if err1 != nil || err2 != nil {
		t.Fatalf("decode: %v %v", err1, err2)
	}
	n1 := e1.DateTimeOriginal().Location().String()
	n2 := e2.DateTimeOriginal().Location().String()
	// a fresh process decoding only the second file must give the same name as this one: the name may
	// therefore not be the first file's spelling unless both spell alike. Deterministic naming => equal.
	if n1 != n2 || n1 != "+07:15" {
		t.Errorf("zone names %q / %q, want both +07:15 whatever was decoded first", n1, n2)
	}
}

// C20: a 64x64 4:2:0 YCbCr image (what image/jpeg returns) went to the vector kernel, which reads the chroma
// planes with luma indexing (wrong pixels, reads past the 1024-byte planes). The two implementations must agree.
func TestConfirmYCbCr420(t *testing.T) {
	img := image.NewYCbCr(image.Rect(0, 0, 64, 64), image.YCbCrSubsampleRatio420)
	for i := range img.Y {
		img.Y[i] = byte(i * 13)
	}
	for i := range img.Cb {
		img.Cb[i], img.Cr[i] = byte(i*29), byte(255-i*3)
	}
	px := make([]float32, 64*64)
	transforms32.ImageToGray(img, &px) // uses transforms32.YCbCrToGray: the vector kernel where available
	bad := 0
	for y := 0; y < 64; y++ {
		for x := 0; x < 64; x++ {
			// the library's own (unclamped, 16-bit scaled) luminance formula, at the pixel's own samples
			yy1 := int32(img.Y[img.YOffset(x, y)]) * 0x10101
			cb1 := int32(img.Cb[img.COffset(x, y)]) - 128
			cr1 := int32(img.Cr[img.COffset(x, y)]) - 128
			r, g, b := yy1+91881*cr1, yy1-22554*cb1-46802*cr1, yy1+116130*cb1
			want := 0.299*float64(r/257) + 0.587*float64(g/257) + 0.114*float64(b>>8)
			if d := float64(px[y*64+x]) - want; d > 3 || d < -3 {
				bad++
			}
		}
	}
	if bad > 0 {
		t.Errorf("4:2:0 image: %d of 4096 luminance values differ from the pixels' luminance by more than 3", bad)
	}
}

// C08 RDATEOF: an io.ReaderAt may return io.EOF together with a full read (the contract says so, and readers over
// fixed-size blobs do it). imagetype.ReadAt discarded the count and took any error for a failure, so a 24-byte
// file sniffed through such a reader was refused while bytes.Reader over the same bytes was classified.
type eofWithData struct{ b []byte }

func (e eofWithData) ReadAt(p []byte, off int64) (int, error) {
	n := copy(p, e.b[off:])
	if int(off)+n >= len(e.b) {
		return n, io.EOF
	}
	return n, nil
}

func TestConfirmReadAtFullReadWithEOF(t *testing.T) {
	hdr := append([]byte{0xFF, 0xD8, 0xFF, 0xE1}, make([]byte, 20)...)
	want, werr := imagetype.ReadAt(bytes.NewReader(hdr))
	got, gerr := imagetype.ReadAt(eofWithData{hdr})
	if got != want || (gerr == nil) != (werr == nil) {
		t.Fatalf("ReadAt over a reader that reports EOF with the last bytes: (%v, %v), over bytes.Reader: (%v, %v)", got, gerr, want, werr)
	}
}
