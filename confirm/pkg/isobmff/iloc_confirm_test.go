package isobmff

// Triage evidence (not a check), C06/C11 CURSOR: readIloc stepped over the first extent of an item only, so an item
// with two extents in front of the Exif item shifted every later entry: the Exif item's location was garbage.

import (
	"bytes"
	"encoding/binary"
	"testing"
)

func cbox(typ string, payload ...[]byte) []byte {
	var p []byte
	for _, x := range payload {
		p = append(p, x...)
	}
	b := make([]byte, 8, 8+len(p))
	binary.BigEndian.PutUint32(b, uint32(8+len(p)))
	copy(b[4:], typ)
	return append(b, p...)
}

func c16(v uint16) []byte { b := make([]byte, 2); binary.BigEndian.PutUint16(b, v); return b }
func c32(v uint32) []byte { b := make([]byte, 4); binary.BigEndian.PutUint32(b, v); return b }

func TestConfirmIlocSecondItemAfterTwoExtents(t *testing.T) {
	iloc := cbox("iloc", c32(0), []byte{0x44, 0x00}, c16(2), // version 0, offset_size 4, length_size 4, 2 items
		c16(7), c16(0), c16(2), c32(1000), c32(10), c32(2000), c32(20), // item 7: two extents
		c16(0), c16(0), c16(1), c32(3000), c32(30)) // item 0 (the default Exif id): one extent
	file := bytes.Join([][]byte{
		cbox("ftyp", []byte("heic"), []byte{0, 0, 0, 0}, []byte("heic"), []byte("mif1")),
		cbox("meta", c32(0), iloc),
		make([]byte, 64),
	}, nil)
	r := NewReader(bytes.NewReader(file))
	defer r.Close()
	if err := r.ReadFTYP(); err != nil {
		t.Fatal(err)
	}
	if err := r.ReadMetadata(); err != nil {
		t.Fatal(err)
	}
	if got := r.heic.exif.ol; got.offset != 3000 || got.length != 30 {
		t.Errorf("Exif item location = offset %d length %d, want 3000 and 30", got.offset, got.length)
	}
}
