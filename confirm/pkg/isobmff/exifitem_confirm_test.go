package isobmff

// Observation (not a check, no property claimed - DESIGN.md 8.5, round 13): newExifBox positions the reader a few
// bytes in front of the Exif item (eight with an ordinary mdat header) and builds the inner box over the item's length
// from there: the length handed to the Exif callback of isobmff.Reader is short by those bytes. This test FAILS on the
// present tree by design. The path is not one of the decode entry points C06 quantifies over (DecodeHeif finds the
// payload by signature) nor one of the CR3 callbacks C11 names, so no listed property is broken.

import (
	"bytes"
	"io"
	"testing"

	"github.com/evanoberholster/imagemeta/meta"
)

func TestObservedHeifExifItemExtent(t *testing.T) {
	// a little-endian TIFF payload of 40 bytes whose last bytes matter
	tiff := append([]byte{'I', 'I', 0x2a, 0, 8, 0, 0, 0}, bytes.Repeat([]byte{0xAB}, 32)...)
	item := bytes.Join([][]byte{c32(6), []byte("Exif\x00\x00"), tiff}, nil)
	ftyp := cbox("ftyp", []byte("heic"), []byte{0, 0, 0, 0}, []byte("heic"), []byte("mif1"))
	mkfile := func(itemOffset uint32) []byte {
		iloc := cbox("iloc", c32(0), []byte{0x44, 0x00}, c16(1), c16(0), c16(0), c16(1), c32(itemOffset), c32(uint32(len(item))))
		return bytes.Join([][]byte{ftyp, cbox("meta", c32(0), iloc), cbox("mdat", make([]byte, 24), item, make([]byte, 64))}, nil)
	}
	probe := mkfile(0)
	file := mkfile(uint32(len(probe) - 64 - len(item)))
	r := NewReader(bytes.NewReader(file))
	defer r.Close()
	var gotLen uint32
	var gotTail []byte
	called := false
	r.ExifReader = func(rd io.Reader, h meta.ExifHeader) error {
		called = true
		gotLen = h.ExifLength
		gotTail, _ = io.ReadAll(rd)
		return nil
	}
	if err := r.ReadFTYP(); err != nil {
		t.Fatal(err)
	}
	if err := r.ReadMetadata(); err != nil { // meta
		t.Fatal(err)
	}
	if err := r.ReadMetadata(); err != nil { // mdat
		t.Fatal(err)
	}
	if !called {
		t.Fatal("the Exif callback was not called")
	}
	if int(gotLen) != len(tiff) {
		t.Errorf("ExifLength = %d, want the %d bytes from the TIFF header to the end of the item", gotLen, len(tiff))
	}
	if want := len(tiff) - 8; len(gotTail) != want {
		t.Errorf("the reader handed to the decoder yields %d bytes after the first directory offset, want %d", len(gotTail), want)
	}
}
