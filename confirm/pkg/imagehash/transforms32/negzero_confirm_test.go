package transforms32

// Triage evidence (not a check) for the C18 LASTLANE repair (abc3092): the portable and the vector 64-/256-point
// kernels on vectors of signed zeros, infinities and extreme magnitudes. Copied by tools/confirm.sh into
// imagehash/transforms32 of a scratch copy of /repo. Fails on 91e98b4 (coefficients 56, 60, 62, 63 resp.
// 248, 252, 254, 255 differ in the sign bit), passes from abc3092 on.

import (
	"math"
	"math/rand"
	"testing"
)

func TestKernelNegativeZeroImpulse(t *testing.T) {
	if !FlagUseASM {
		t.Skip("vector kernels not available on this machine")
	}
	nz := float32(math.Copysign(0, -1))
	a, b := make([]float32, 64), make([]float32, 64)
	a[0], b[0] = nz, nz
	asmForwardDCT64(a)
	forwardDCT64(b)
	for i := range a {
		if math.Float32bits(a[i]) != math.Float32bits(b[i]) {
			t.Errorf("input [-0, +0, ...]: coefficient %d is %#x from the vector kernel and %#x from the portable one", i, math.Float32bits(a[i]), math.Float32bits(b[i]))
		}
	}
}

func TestKernelSignedZeroVectors(t *testing.T) {
	if !FlagUseASM {
		t.Skip("vector kernels not available on this machine")
	}
	nz := float32(math.Copysign(0, -1))
	vals := []float32{nz, 0, 0, nz, 1, -1, 0.5, float32(math.Inf(1)), float32(math.Inf(-1)), 3e38, -3e38, 1e-45, -1e-45}
	rng := rand.New(rand.NewSource(1))
	for _, n := range []int{64, 256} {
		bad := map[int]int{}
		for trial := 0; trial < 20000; trial++ {
			a, b := make([]float32, n), make([]float32, n)
			nv := 2 + rng.Intn(len(vals)-1)
			if trial%2 == 0 {
				nv = 4
			}
			for i := range a {
				a[i] = vals[rng.Intn(nv)]
				b[i] = a[i]
			}
			if n == 64 {
				asmForwardDCT64(a)
				forwardDCT64(b)
			} else {
				asmForwardDCT256(a)
				forwardDCT256(b)
			}
			for i := range a {
				if math.Float32bits(a[i]) != math.Float32bits(b[i]) && !(a[i] != a[i] && b[i] != b[i]) {
					bad[i]++
				}
			}
		}
		if len(bad) > 0 {
			t.Errorf("%d-point kernels differ in coefficients (index: count over 20000 vectors) %v", n, bad)
		}
	}
}
