package transforms32

// Triage evidence (not a check), C20 ALIGN: the YCbCr kernel stored its result with VMOVAPS, which faults unless the
// destination is 32-byte aligned; AsmYCbCrToGray is exported and takes any []float32.

import (
	"image"
	"runtime/debug"
	"testing"
)

func TestConfirmYCbCrUnalignedDestination(t *testing.T) {
	img := image.NewYCbCr(image.Rect(0, 0, 64, 64), image.YCbCrSubsampleRatio444)
	for i := range img.Y {
		img.Y[i], img.Cb[i], img.Cr[i] = byte(i), byte(3*i), byte(7*i)
	}
	want := make([]float32, 64*64)
	yCbCrToGrayAlt(img, want)
	backing := make([]float32, 64*64+16)
	for off := 0; off < 9; off++ {
		dst := backing[off : off+64*64]
		faulted := false
		func() {
			defer debug.SetPanicOnFault(debug.SetPanicOnFault(true))
			defer func() {
				if r := recover(); r != nil {
					faulted = true
					t.Errorf("destination at offset %d floats: %v", off, r)
				}
			}()
			AsmYCbCrToGray(img, dst)
		}()
		for i := range want {
			if faulted {
				break
			}
			if d := dst[i] - want[i]; d > 2 || d < -2 {
				t.Errorf("offset %d: pixel %d = %v, portable %v", off, i, dst[i], want[i])
				break
			}
		}
	}
}
