package imagemeta_test

// Triage evidence (not a check) for the jpeg repairs. Place in the module root.

import (
	"bytes"
	"encoding/binary"
	"io"
	"testing"

	"github.com/evanoberholster/imagemeta/exif2"
	"github.com/evanoberholster/imagemeta/jpeg"
	"github.com/evanoberholster/imagemeta/meta"
	"github.com/rs/zerolog"
)

func seg(marker byte, payload []byte) []byte {
	b := []byte{0xFF, marker, 0, 0}
	binary.BigEndian.PutUint16(b[2:], uint16(len(payload)+2))
	return append(b, payload...)
}

// C10: bytes consumed by the XMP callback were not added to the running offset, so the absolute TIFF offset
// reported for an Exif segment that follows an XMP segment was short by what the callback had read.
func TestConfirmJpegOffsetsAfterXmp(t *testing.T) {
	xmp := append([]byte("http://ns.adobe.com/xap/1.0/\x00"), bytes.Repeat([]byte("<x/>"), 16)...)
	tiffb := tiff([]ent{{0x010F, 2, 4, 0x00434241}}, new(uint32), make([]byte, 8))
	exif := append([]byte("Exif\x00\x00"), tiffb...)
	for _, readXmp := range []bool{false, true} {
		var f bytes.Buffer
		f.Write([]byte{0xFF, 0xD8})
		f.Write(seg(0xE1, xmp))
		want := f.Len() + 4 + 6
		f.Write(seg(0xE1, exif))
		f.Write(seg(0xDB, make([]byte, 65)))
		f.Write(make([]byte, 128))
		var got meta.ExifHeader
		err := jpeg.ScanJPEG(bytes.NewReader(f.Bytes()),
			func(r io.Reader, h meta.ExifHeader) error {
				got = h
				_, err := io.CopyN(io.Discard, r, int64(h.ExifLength))
				return err
			},
			func(r io.Reader) error {
				if readXmp {
					_, err := io.Copy(io.Discard, r)
					return err
				}
				return nil
			})
		if err != nil || int(got.TiffHeaderOffset) != want {
			t.Errorf("xmp callback reads=%v: TiffHeaderOffset=%d err=%v, want %d", readXmp, got.TiffHeaderOffset, err, want)
		}
	}
}

// C10: a second Exif segment after one whose callback consumed its payload.
func TestConfirmJpegOffsetsAfterExif(t *testing.T) {
	tiffb := tiff([]ent{{0x010F, 2, 4, 0x00434241}}, new(uint32), make([]byte, 8))
	exif := append([]byte("Exif\x00\x00"), tiffb...)
	var f bytes.Buffer
	f.Write([]byte{0xFF, 0xD8})
	f.Write(seg(0xE1, exif))
	want := f.Len() + 4 + 6
	f.Write(seg(0xE1, exif))
	f.Write(seg(0xDB, make([]byte, 65)))
	f.Write(make([]byte, 128))
	var got []uint32
	err := jpeg.ScanJPEG(bytes.NewReader(f.Bytes()),
		func(r io.Reader, h meta.ExifHeader) error {
			got = append(got, h.TiffHeaderOffset)
			_, err := io.CopyN(io.Discard, r, int64(h.ExifLength))
			return err
		}, nil)
	if err != nil || len(got) != 2 || int(got[1]) != want {
		t.Errorf("offsets %v err=%v, want second = %d", got, err, want)
	}
}

// C10/C04: the library's own Exif reader kept its stream position from the previous segment, so on a second
// Exif segment (or on any reuse of the reader) it mis-resolved value offsets and did not consume its declared
// length; the scanner then resumed inside the Exif payload.
func TestConfirmSecondExifSegmentLibraryReader(t *testing.T) {
	model := "MODEL-NAME-LONGER-THAN-FOUR\x00"
	t1 := tiff([]ent{{0x010F, 2, 4, 0x00434241}}, new(uint32), make([]byte, 40))
	t2 := tiff([]ent{{0x0110, 2, uint32(len(model)), 26}}, new(uint32), append([]byte(model), make([]byte, 64)...))
	xmp := append([]byte("http://ns.adobe.com/xap/1.0/\x00"), bytes.Repeat([]byte("<x/>"), 16)...)
	var f bytes.Buffer
	f.Write([]byte{0xFF, 0xD8})
	f.Write(seg(0xE1, append([]byte("Exif\x00\x00"), t1...)))
	f.Write(seg(0xE1, append([]byte("Exif\x00\x00"), t2...)))
	f.Write(seg(0xE1, xmp))
	f.Write(seg(0xDB, make([]byte, 65)))
	f.Write(make([]byte, 128))
	ir := exif2.NewIfdReader(zerolog.Nop())
	defer ir.Close()
	var gotXmp []byte
	err := jpeg.ScanJPEG(bytes.NewReader(f.Bytes()), ir.DecodeJPEGIfd, func(r io.Reader) error {
		var e error
		gotXmp, e = io.ReadAll(r)
		return e
	})
	if err != nil {
		t.Errorf("ScanJPEG: %v", err)
	}
	if ir.Exif.Make != "ABC" || ir.Exif.Model != model[:len(model)-1] {
		t.Errorf("Make=%q Model=%q, want ABC and %q", ir.Exif.Make, ir.Exif.Model, model[:len(model)-1])
	}
	if !bytes.Equal(gotXmp, xmp[29:]) {
		t.Errorf("XMP callback got %d bytes, want %d", len(gotXmp), len(xmp)-29)
	}
}

// C10 FILLBYTE: a marker preceded by a fill byte (FF FF E1 …, legal by T.81 B.1.1.2) was framed as a segment of type
// 0xFF with a bogus length, and the Exif segment was not delivered.
func TestConfirmJpegFillBytes(t *testing.T) {
	tiffb := tiff([]ent{{0x010F, 2, 4, 0x00434241}}, new(uint32), make([]byte, 8))
	exif := append([]byte("Exif\x00\x00"), tiffb...)
	for _, fill := range []int{0, 1, 3} {
		var f bytes.Buffer
		f.Write([]byte{0xFF, 0xD8})
		f.Write(seg(0xE0, append([]byte("JFIF\x00"), make([]byte, 9)...)))
		f.Write(bytes.Repeat([]byte{0xFF}, fill))
		f.Write(seg(0xE1, exif))
		f.Write(seg(0xDB, make([]byte, 65)))
		f.Write(make([]byte, 128))
		calls := 0
		err := jpeg.ScanJPEG(bytes.NewReader(f.Bytes()),
			func(r io.Reader, h meta.ExifHeader) error {
				calls++
				_, err := io.CopyN(io.Discard, r, int64(h.ExifLength))
				return err
			}, nil)
		if err != nil || calls != 1 {
			t.Errorf("%d fill byte(s): Exif callback called %d time(s), err=%v", fill, calls, err)
		}
	}
}
