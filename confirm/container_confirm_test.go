package imagemeta_test

// Triage evidence (not a check): one Exif payload, several containers (C06).

import (
	"bytes"
	"encoding/binary"
	"strings"
	"testing"

	"github.com/evanoberholster/imagemeta"
)

type cEnt struct {
	id, typ uint16
	count   uint32
	val     []byte
}

func cASCII(id uint16, s string) cEnt {
	b := append([]byte(s), 0)
	return cEnt{id, 2, uint32(len(b)), b}
}

// cIFD serialises one little-endian IFD located at offset off; values follow the IFD.
func cIFD(off uint32, ents []cEnt) []byte {
	le := binary.LittleEndian
	n := len(ents)
	out := make([]byte, 2+12*n+4)
	le.PutUint16(out, uint16(n))
	voff := off + uint32(len(out))
	var vals []byte
	for i, e := range ents {
		p := out[2+12*i:]
		le.PutUint16(p, e.id)
		le.PutUint16(p[2:], e.typ)
		le.PutUint32(p[4:], e.count)
		if len(e.val) <= 4 {
			copy(p[8:12], e.val)
		} else {
			le.PutUint32(p[8:], voff+uint32(len(vals)))
			vals = append(vals, e.val...)
			if len(vals)%2 == 1 {
				vals = append(vals, 0)
			}
		}
	}
	return append(out, vals...)
}

// cStream: TIFF header + IFD0 at firstIfd (≥ 8; the gap is zero padding).
func cStream(firstIfd uint32, ents []cEnt) []byte {
	p := []byte{'I', 'I', 0x2a, 0, 0, 0, 0, 0}
	binary.LittleEndian.PutUint32(p[4:], firstIfd)
	p = append(p, make([]byte, firstIfd-8)...)
	return append(p, cIFD(firstIfd, ents)...)
}

func cBox(typ string, data []byte) []byte {
	out := make([]byte, 8)
	binary.BigEndian.PutUint32(out, uint32(len(data)+8))
	copy(out[4:], typ)
	return append(out, data...)
}

func cCR3(cmt1 []byte) []byte {
	uuid := []byte{0x85, 0xc0, 0xb6, 0x87, 0x82, 0x0f, 0x11, 0xe0, 0x81, 0x11, 0xf4, 0xce, 0x46, 0x2b, 0x6a, 0x48}
	u := append([]byte{}, uuid...)
	u = append(u, cBox("CNCV", []byte("CanonCR3_001/00.09.00/00.00.00"))...)
	u = append(u, cBox("CMT1", cmt1)...)
	out := cBox("ftyp", []byte("crx \x00\x00\x00\x01crx isom"))
	out = append(out, cBox("moov", cBox("uuid", u))...)
	out = append(out, cBox("mdat", make([]byte, 256))...)
	return out
}

// TestContainerLongValuePng: a 1 500-byte ImageDescription decodes from a bare TIFF and must decode from the
// same payload in a PNG eXIf chunk.
func TestContainerLongValuePng(t *testing.T) {
	desc := strings.Repeat("d", 1500)
	payload := cStream(8, []cEnt{cASCII(0x010e, desc), cASCII(0x010f, "MK")})
	tf := append(append([]byte{}, payload...), make([]byte, 64)...)
	e1, err := imagemeta.DecodeTiff(bytes.NewReader(tf))
	if err != nil || e1.ImageDescription != desc {
		t.Fatalf("reference TIFF: err=%v len(desc)=%d", err, len(e1.ImageDescription))
	}
	e2, err := imagemeta.DecodePng(bytes.NewReader(pngWith(payload)))
	if err != nil || e2.ImageDescription != desc || e2.Make != e1.Make {
		t.Fatalf("PNG: err=%v len(desc)=%d make=%q (TIFF: %d, %q)", err, len(e2.ImageDescription), e2.Make, len(e1.ImageDescription), e1.Make)
	}
}

// TestContainerFirstIfdOffsetCR3: a payload whose first IFD is at offset 16 decodes from a bare TIFF and must decode
// from a CR3 CMT1 box.
func TestContainerFirstIfdOffsetCR3(t *testing.T) {
	payload := cStream(16, []cEnt{cASCII(0x010f, "Canon"), cASCII(0x0110, "Canon EOS R6"), cASCII(0x0131, "SoftwareName 1.0")})
	tf := append(append([]byte{}, payload...), make([]byte, 64)...)
	e1, err := imagemeta.DecodeTiff(bytes.NewReader(tf))
	if err != nil || e1.Software != "SoftwareName 1.0" {
		t.Fatalf("reference TIFF: err=%v software=%q", err, e1.Software)
	}
	e2, err := imagemeta.DecodeCR3(bytes.NewReader(cCR3(payload)))
	if err != nil || e2.Software != e1.Software || e2.Model != e1.Model {
		t.Fatalf("CR3: err=%v software=%q model=%q (TIFF: %q, %q)", err, e2.Software, e2.Model, e1.Software, e1.Model)
	}
}

// cCR3With places extra boxes between CNCV and CMT1 inside Canon's metadata box.
func cCR3With(cmt1 []byte, extra ...[]byte) []byte {
	uuid := []byte{0x85, 0xc0, 0xb6, 0x87, 0x82, 0x0f, 0x11, 0xe0, 0x81, 0x11, 0xf4, 0xce, 0x46, 0x2b, 0x6a, 0x48}
	u := append([]byte{}, uuid...)
	u = append(u, cBox("CNCV", []byte("CanonCR3_001/00.09.00/00.00.00"))...)
	for _, e := range extra {
		u = append(u, e...)
	}
	u = append(u, cBox("CMT1", cmt1)...)
	out := cBox("ftyp", []byte("crx \x00\x00\x00\x01crx isom"))
	out = append(out, cBox("moov", cBox("uuid", u))...)
	out = append(out, cBox("mdat", make([]byte, 256))...)
	return out
}

// TestContainerShortSiblingBoxCR3 (C06): a sibling box of the CMT boxes that is shorter than its handler assumes
// (a 2-byte CTBO) is container content; the payload in CMT1 must decode as from the bare TIFF.
func TestContainerShortSiblingBoxCR3(t *testing.T) {
	payload := cStream(8, []cEnt{cASCII(0x010f, "Canon"), cASCII(0x0110, "Canon EOS R6"), cASCII(0x0131, "SoftwareName 1.0")})
	for _, sib := range [][]byte{cBox("CTBO", []byte{0, 0}), cBox("CTBO", nil)} {
		e, err := imagemeta.DecodeCR3(bytes.NewReader(cCR3With(payload, sib)))
		if err != nil || e.Software != "SoftwareName 1.0" {
			t.Errorf("CR3 with a %d-byte CTBO box: err=%v software=%q", len(sib)-8, err, e.Software)
		}
	}
}

// Recorded, not repaired (C06 TOPWALK): imagemeta.Decode reads exactly one top-level box after ftyp, so a CR3 whose
// moov box is preceded by another box (here: free) yields no metadata; DecodeCR3 reads two and tolerates one.
func TestRecordedCR3BoxBeforeMoov(t *testing.T) {
	payload := cStream(8, []cEnt{cASCII(0x010f, "Canon"), cASCII(0x0110, "Canon EOS R6"), cASCII(0x0131, "SoftwareName 1.0")})
	plain := cCR3(payload)
	// insert a free box between ftyp and moov
	ftypLen := int(binary.BigEndian.Uint32(plain[:4]))
	withFree := append(append(append([]byte{}, plain[:ftypLen]...), cBox("free", make([]byte, 16))...), plain[ftypLen:]...)
	e0, err0 := imagemeta.Decode(bytes.NewReader(plain))
	e1, err1 := imagemeta.Decode(bytes.NewReader(withFree))
	if err0 != nil || e0.Software != "SoftwareName 1.0" {
		t.Fatalf("reference CR3: err=%v software=%q", err0, e0.Software)
	}
	if err1 != nil || e1.Software != e0.Software {
		t.Errorf("CR3 with a free box before moov: err=%v software=%q, want %q", err1, e1.Software, e0.Software)
	}
}

// Recorded, not repaired (C06 HEIFSCAN): the HEIF entry points find the Exif payload by searching the file for a
// TIFF signature, so the bytes "II*\x00" in an earlier box are taken for the header.
func TestRecordedHeifSignatureInEarlierBox(t *testing.T) {
	payload := cStream(8, []cEnt{cASCII(0x010f, "Canon"), cASCII(0x0131, "SoftwareName 1.0")})
	payload = append(payload, make([]byte, 64)...)
	mk := func(decoy []byte) []byte {
		out := cBox("ftyp", []byte("heic\x00\x00\x00\x00heicmif1"))
		out = append(out, cBox("free", decoy)...)
		out = append(out, cBox("mdat", append([]byte("Exif\x00\x00"), payload...))...)
		return out
	}
	e0, err0 := imagemeta.DecodeHeif(bytes.NewReader(mk(make([]byte, 40))))
	e1, err1 := imagemeta.DecodeHeif(bytes.NewReader(mk(append([]byte("II*\x00\x08\x00\x00\x00\x00\x00"), make([]byte, 30)...))))
	if err0 != nil || e0.Software != "SoftwareName 1.0" {
		t.Fatalf("reference HEIF: err=%v software=%q", err0, e0.Software)
	}
	if err1 != nil || e1.Software != e0.Software {
		t.Errorf("HEIF with the bytes II*\\0 in an earlier box: err=%v software=%q, want %q", err1, e1.Software, e0.Software)
	}
}
