package imagemeta_test

// Triage evidence (not a check) for the XMP look-ahead window repairs. Place in the module root.

import (
	"fmt"
	"strings"
	"testing"

	"github.com/evanoberholster/imagemeta/xmp"
)

func xmpPacket(body string) string {
	return `<?xpacket begin="" id="W5M0MpCehiHzreSzNTczkc9d"?><x:xmpmeta xmlns:x="adobe:ns:meta/"><rdf:RDF xmlns:rdf="http://www.w3.org/1999/02/22-rdf-syntax-ns#">` + body + `</rdf:RDF></x:xmpmeta><?xpacket end="w"?>`
}

// TestXmpAttrValueAtWindowEdge: an attribute value whose closing quote falls on the last bytes of a look-ahead
// window must be read like any other (well-formed packet, value length 1..1024).
func TestXmpAttrValueAtWindowEdge(t *testing.T) {
	var bad []int
	for n := 1; n <= 1024; n++ {
		val := strings.Repeat("v", n)
		p := xmpPacket(`<rdf:Description rdf:about="" xmlns:aux="http://ns.adobe.com/exif/1.0/aux/" xmlns:tiff="http://ns.adobe.com/tiff/1.0/" aux:Lens="` + val + `" tiff:Model="M1"></rdf:Description>`)
		x, err := xmp.ParseXmp(strings.NewReader(p))
		if err != nil || x.Aux.Lens != val || x.Tiff.Model != "M1" {
			bad = append(bad, n)
		}
	}
	if len(bad) > 0 {
		t.Fatalf("attribute values of these lengths are not extracted (or the following attribute is lost): %v", bad)
	}
}

// TestXmpWhitespaceBeforeTag: arbitrary white space between tokens.
func TestXmpWhitespaceBeforeTag(t *testing.T) {
	var bad []int
	for n := 0; n <= 700; n++ {
		p := xmpPacket(`<rdf:Description rdf:about="" xmlns:tiff="http://ns.adobe.com/tiff/1.0/">` + strings.Repeat(" ", n) + `<tiff:Make>MK</tiff:Make>` + strings.Repeat("\n", n) + `<tiff:Model>MD</tiff:Model></rdf:Description>`)
		x, err := xmp.ParseXmp(strings.NewReader(p))
		if err != nil || x.Tiff.Make != "MK" || x.Tiff.Model != "MD" {
			bad = append(bad, n)
		}
	}
	if len(bad) > 0 {
		t.Fatalf("with this many white-space bytes before an element the properties are not extracted: %s", fmt.Sprint(bad))
	}
}

// TestXmpElementValueLengths: element values of 1..1024 bytes.
func TestXmpElementValueLengths(t *testing.T) {
	var bad []int
	for n := 1; n <= 1024; n++ {
		val := strings.Repeat("e", n)
		p := xmpPacket(`<rdf:Description rdf:about="" xmlns:tiff="http://ns.adobe.com/tiff/1.0/"><tiff:Make>` + val + `</tiff:Make><tiff:Model>MD</tiff:Model></rdf:Description>`)
		x, err := xmp.ParseXmp(strings.NewReader(p))
		if err != nil || x.Tiff.Make != val || x.Tiff.Model != "MD" {
			bad = append(bad, n)
		}
	}
	if len(bad) > 0 {
		t.Fatalf("element values of these lengths are not extracted: %v", bad)
	}
}

// C13 MAXINCL: the range checks in front of the narrowing conversions refused the largest value itself:
// exif:MeteringMode="255" (other) read as 0 (unknown), a 32-bit field holding 4294967295 read as 0.
func TestXmpLargestValues(t *testing.T) {
	p := xmpPacket(`<rdf:Description rdf:about="" xmlns:exif="http://ns.adobe.com/exif/1.0/" xmlns:aux="http://ns.adobe.com/exif/1.0/aux/" exif:MeteringMode="255" exif:PixelXDimension="4294967295" aux:LensID="4294967295"></rdf:Description>`)
	x, err := xmp.ParseXmp(strings.NewReader(p))
	if err != nil {
		t.Fatal(err)
	}
	if uint16(x.Exif.MeteringMode) != 255 || x.Exif.PixelXDimension != 4294967295 || x.Aux.LensID != 4294967295 {
		t.Errorf("MeteringMode=%d PixelXDimension=%d LensID=%d", x.Exif.MeteringMode, x.Exif.PixelXDimension, x.Aux.LensID)
	}
}

// C13 WSSET: the tokenizer skipped only ' ' and '\n'; attributes of a packet indented with tabs or written with
// CRLF line endings were dropped without an error.
func TestXmpTabsAndCRLF(t *testing.T) {
	for name, body := range map[string]string{
		"tabs": "<rdf:Description rdf:about=\"\" xmlns:tiff=\"http://ns.adobe.com/tiff/1.0/\"\n\ttiff:Make=\"Canon\"\n\ttiff:Model=\"M1\"></rdf:Description>",
		"crlf": "<rdf:Description rdf:about=\"\" xmlns:tiff=\"http://ns.adobe.com/tiff/1.0/\"\r\n   tiff:Make=\"Canon\"\r\n   tiff:Model=\"M1\"></rdf:Description>",
	} {
		x, err := xmp.ParseXmp(strings.NewReader(xmpPacket(body)))
		if err != nil || x.Tiff.Make != "Canon" || x.Tiff.Model != "M1" {
			t.Errorf("%s: err=%v Make=%q Model=%q", name, err, x.Tiff.Make, x.Tiff.Model)
		}
	}
}

// C13 FORMDEP (language alternatives): dc:description stored the xml:lang attribute value of its rdf:li item as an
// item ("x-default", "A text"); dc:title and dc:rights had the test it lacked.
func TestXmpDescriptionLangAlt(t *testing.T) {
	body := `<rdf:Description rdf:about="" xmlns:dc="http://purl.org/dc/elements/1.1/"><dc:description><rdf:Alt><rdf:li xml:lang="x-default">A text</rdf:li></rdf:Alt></dc:description><dc:title><rdf:Alt><rdf:li xml:lang="x-default">A title</rdf:li></rdf:Alt></dc:title></rdf:Description>`
	x, err := xmp.ParseXmp(strings.NewReader(xmpPacket(body)))
	if err != nil {
		t.Fatal(err)
	}
	if len(x.DC.Description) != 1 || x.DC.Description[0] != "A text" || len(x.DC.Title) != 1 || x.DC.Title[0] != "A title" {
		t.Errorf("Description=%q Title=%q", x.DC.Description, x.DC.Title)
	}
}

// Recorded, not repaired (C13 NARROWX): 16-bit fields wrap.
func TestRecordedXmpNarrowFields(t *testing.T) {
	p := xmpPacket(`<rdf:Description rdf:about="" xmlns:tiff="http://ns.adobe.com/tiff/1.0/" tiff:ImageWidth="70000" tiff:ImageLength="1000"></rdf:Description>`)
	x, err := xmp.ParseXmp(strings.NewReader(p))
	if err != nil {
		t.Fatal(err)
	}
	if x.Tiff.ImageWidth != 4464 {
		t.Logf("tiff:ImageWidth=70000 is now reported as %d (the recorded finding was 4464)", x.Tiff.ImageWidth)
	} else {
		t.Errorf("tiff:ImageWidth=\"70000\" decoded as %d", x.Tiff.ImageWidth)
	}
}

// C13 SIGNX: xmp:Rating="-1" (rejected) was read by the unsigned parser and came back as 0 (unrated).
func TestXmpNegativeRating(t *testing.T) {
	for _, c := range []struct {
		txt  string
		want int8
	}{{"-1", -1}, {"0", 0}, {"5", 5}} {
		p := xmpPacket(`<rdf:Description rdf:about="" xmlns:xmp="http://ns.adobe.com/xap/1.0/" xmp:Rating="` + c.txt + `"></rdf:Description>`)
		x, err := xmp.ParseXmp(strings.NewReader(p))
		if err != nil || x.Basic.Rating != c.want {
			t.Errorf("Rating %q: %d, err=%v, want %d", c.txt, x.Basic.Rating, err, c.want)
		}
	}
}

// C13 GUIDCUT: identifiers whose scheme part contains a colon ("adobe:docid:photoshop:…", "urn:uuid:…") were cut at
// the first colon and came back as the nil UUID.
func TestXmpDocumentIDForms(t *testing.T) {
	const guid = "6ba7b810-9dad-11d1-80b4-00c04fd430c8"
	for _, pre := range []string{"", "xmp.did:", "uuid:", "urn:uuid:", "adobe:docid:photoshop:"} {
		p := xmpPacket(`<rdf:Description rdf:about="" xmlns:xmpMM="http://ns.adobe.com/xap/1.0/mm/" xmpMM:DocumentID="` + pre + guid + `"></rdf:Description>`)
		x, err := xmp.ParseXmp(strings.NewReader(p))
		if err != nil || x.MM.DocumentID.String() != guid {
			t.Errorf("DocumentID %q: %s, err=%v", pre+guid, x.MM.DocumentID.String(), err)
		}
	}
}

// C13 GPSFORM: exif:GPSLatitude / GPSLongitude in the XMP GPSCoordinate form were read by the decimal-number parser
// and came back as 0.
func TestXmpGPSCoordinateForms(t *testing.T) {
	p := xmpPacket(`<rdf:Description rdf:about="" xmlns:exif="http://ns.adobe.com/exif/1.0/" exif:GPSLatitude="33,51.357S" exif:GPSLongitude="151,12,30E"></rdf:Description>`)
	x, err := xmp.ParseXmp(strings.NewReader(p))
	if err != nil {
		t.Fatal(err)
	}
	lat, lon := -(33 + 51.357/60), 151+12.0/60+30.0/3600
	if d := x.Exif.GPSLatitude - lat; d > 1e-9 || d < -1e-9 {
		t.Errorf("GPSLatitude = %v, want %v", x.Exif.GPSLatitude, lat)
	}
	if d := x.Exif.GPSLongitude - lon; d > 1e-9 || d < -1e-9 {
		t.Errorf("GPSLongitude = %v, want %v", x.Exif.GPSLongitude, lon)
	}
}

// C13 RATFORM: exif:GPSAltitude, a Rational ("1234/10"), was read by the decimal-number parser and came back as 0.
func TestXmpGPSAltitudeRational(t *testing.T) {
	p := xmpPacket(`<rdf:Description rdf:about="" xmlns:exif="http://ns.adobe.com/exif/1.0/" exif:GPSAltitude="1234/10"></rdf:Description>`)
	x, err := xmp.ParseXmp(strings.NewReader(p))
	if err != nil || x.Exif.GPSAltitude < 123.39 || x.Exif.GPSAltitude > 123.41 {
		t.Errorf("GPSAltitude = %v, err=%v, want 123.4", x.Exif.GPSAltitude, err)
	}
}

// C13 DATEFORMS: the reduced-precision forms of the XMP Date type were refused and reported as the zero time.
func TestXmpReducedDates(t *testing.T) {
	for _, c := range []struct{ txt, want string }{
		{"2021-03-04", "2021-03-04T00:00:00Z"},
		{"2021-03", "2021-03-01T00:00:00Z"},
		{"2021", "2021-01-01T00:00:00Z"},
		{"2021-03-04T05:06", "2021-03-04T05:06:00Z"},
		{"2021-03-04T05:06+05:30", "2021-03-04T05:06:00+05:30"},
		{"2021-03-04T05:06:07", "2021-03-04T05:06:07Z"},
	} {
		p := xmpPacket(`<rdf:Description rdf:about="" xmlns:xmp="http://ns.adobe.com/xap/1.0/" xmp:CreateDate="` + c.txt + `"></rdf:Description>`)
		x, err := xmp.ParseXmp(strings.NewReader(p))
		if got := x.Basic.CreateDate.Format("2006-01-02T15:04:05Z07:00"); err != nil || got != c.want {
			t.Errorf("CreateDate %q: %s, err=%v, want %s", c.txt, got, err, c.want)
		}
	}
}

// TestConfirmXmpWhiteSpaceBetweenTokens: XML allows white space on both sides of the '=' of an attribute and
// between the last attribute and the '>' or '/>' that ends the tag. Every one of these forms of the same
// rdf:Description must report the same two properties, for padding that straddles the look-ahead steps too.
func TestConfirmXmpWhiteSpaceBetweenTokens(t *testing.T) {
	const ns = `<rdf:Description rdf:about="" xmlns:tiff="http://ns.adobe.com/tiff/1.0/" `
	var bad []string
	for _, pad := range []string{" ", "\n", "\t ", "\r\n  ", strings.Repeat(" ", 127), strings.Repeat(" ", 300)} {
		for name, body := range map[string]string{
			"before >":        ns + `tiff:Make="Canon"` + pad + `><tiff:Model>M1</tiff:Model></rdf:Description>`,
			"before />":       ns + `tiff:Make="Canon" tiff:Model="M1"` + pad + `/>`,
			"before =":        ns + `tiff:Make` + pad + `="Canon" tiff:Model="M1"></rdf:Description>`,
			"after =":         ns + `tiff:Make=` + pad + `"Canon" tiff:Model="M1"></rdf:Description>`,
			"around =":        ns + `tiff:Make` + pad + `=` + pad + `'Canon' tiff:Model='M1'` + pad + `></rdf:Description>`,
			"between attrs":   ns + `tiff:Make="Canon"` + pad + `tiff:Model="M1"></rdf:Description>`,
			"in a child elem": ns + `><tiff:Make` + pad + `>Canon</tiff:Make` + pad + `><tiff:Model>M1</tiff:Model></rdf:Description>`,
		} {
			x, err := xmp.ParseXmp(strings.NewReader(xmpPacket(body)))
			if err != nil || x.Tiff.Make != "Canon" || x.Tiff.Model != "M1" {
				bad = append(bad, fmt.Sprintf("%s (pad %d bytes): err=%v Make=%q Model=%q", name, len(pad), err, x.Tiff.Make, x.Tiff.Model))
			}
		}
	}
	if len(bad) > 0 {
		t.Fatalf("white space between tokens loses properties:\n%s", strings.Join(bad, "\n"))
	}
}

// TestConfirmXmpEntities: a well-formed packet writes '&', '<' and the delimiting quote of an attribute value as
// entity or character references; the reported value is the text they stand for, in attribute and element form
// and for array items alike.
func TestConfirmXmpEntities(t *testing.T) {
	const ns = `<rdf:Description rdf:about="" xmlns:tiff="http://ns.adobe.com/tiff/1.0/" xmlns:dc="http://purl.org/dc/elements/1.1/" `
	want := `Tom & Jerry <"Inc"> 'é'`
	esc := `Tom &amp; Jerry &lt;&quot;Inc&quot;&gt; &apos;&#233;&apos;`
	hexesc := `Tom &#x26; Jerry &#60;&#x22;Inc&#34;&#x3E; &#39;&#xE9;&#x27;`
	for name, body := range map[string]string{
		"attribute": ns + `tiff:Make="` + esc + `" tiff:Model="M1"></rdf:Description>`,
		"element":   ns + `><tiff:Make>` + esc + `</tiff:Make><tiff:Model>M1</tiff:Model></rdf:Description>`,
		"char refs": ns + `tiff:Make="` + hexesc + `" tiff:Model="M1"></rdf:Description>`,
	} {
		x, err := xmp.ParseXmp(strings.NewReader(xmpPacket(body)))
		if err != nil || x.Tiff.Make != want || x.Tiff.Model != "M1" {
			t.Errorf("%s form: err=%v Make=%q (want %q) Model=%q", name, err, x.Tiff.Make, want, x.Tiff.Model)
		}
	}
	x, err := xmp.ParseXmp(strings.NewReader(xmpPacket(ns + `><dc:creator><rdf:Seq><rdf:li>R&amp;D</rdf:li><rdf:li>plain</rdf:li></rdf:Seq></dc:creator></rdf:Description>`)))
	if err != nil || len(x.DC.Creator) != 2 || x.DC.Creator[0] != "R&D" || x.DC.Creator[1] != "plain" {
		t.Errorf("array items: err=%v Creator=%q", err, x.DC.Creator)
	}
	// what is not a reference stays as written
	x, _ = xmp.ParseXmp(strings.NewReader(xmpPacket(ns + `tiff:Make="a &bogus; b &amp" tiff:Model="M1"></rdf:Description>`)))
	if x.Tiff.Make != "a &bogus; b &amp" {
		t.Errorf("unknown entity: Make=%q", x.Tiff.Make)
	}
}

// TestConfirmXmpComments: a comment between two elements is well-formed; the elements around it are reported as
// without it, wherever the comment falls in the look-ahead windows and whatever it contains.
func TestConfirmXmpComments(t *testing.T) {
	const ns = `<rdf:Description rdf:about="" xmlns:tiff="http://ns.adobe.com/tiff/1.0/" xmlns:dc="http://purl.org/dc/elements/1.1/" `
	for _, n := range []int{0, 1, 60, 100, 110, 115, 120, 121, 122, 123, 124, 125, 126, 127, 128, 129, 130, 500} {
		pad := strings.Repeat(" ", n)
		for name, body := range map[string]string{
			"comment":          ns + `>` + pad + `<!-- a comment --><tiff:Make>Canon</tiff:Make><tiff:Model>M1</tiff:Model></rdf:Description>`,
			"comment-with-tag": ns + `>` + pad + `<!-- <tiff:Make>Nikon</tiff:Make> -- > - ->` + strings.Repeat("x", n) + `--><tiff:Make>Canon</tiff:Make><tiff:Model>M1</tiff:Model></rdf:Description>`,
			"in seq":           ns + `><dc:creator><rdf:Seq>` + pad + `<!--c--><rdf:li>a</rdf:li><!-- <rdf:li>x</rdf:li> --><rdf:li>b</rdf:li></rdf:Seq></dc:creator><tiff:Make>Canon</tiff:Make><tiff:Model>M1</tiff:Model></rdf:Description>`,
			"before desc":      `<!--x-->` + pad + ns + `tiff:Make="Canon" tiff:Model="M1"/>`,
			"at end":           ns + `tiff:Make="Canon" tiff:Model="M1"/>` + pad + `<!--x-->`,
		} {
			x, err := xmp.ParseXmp(strings.NewReader(xmpPacket(body)))
			if err != nil || x.Tiff.Make != "Canon" || x.Tiff.Model != "M1" || (name == "in seq" && strings.Join(x.DC.Creator, ",") != "a,b") {
				t.Errorf("%s, %d bytes of padding: err=%v Make=%q Model=%q creator=%q", name, n, err, x.Tiff.Make, x.Tiff.Model, x.DC.Creator)
			}
		}
	}
}
