package imagemeta_test

// Triage evidence (not a check) for the XMP look-ahead window repairs. Place in the module root.

import (
	"fmt"
	"strings"
	"testing"

	"github.com/evanoberholster/imagemeta/xmp"
)

func xmpPacket(body string) string {
	return `<?xpacket begin="" id="W5M0MpCehiHzreSzNTczkc9d"?><x:xmpmeta xmlns:x="adobe:ns:meta/"><rdf:RDF xmlns:rdf="http://www.w3.org/1999/02/22-rdf-syntax-ns#">` + body + `</rdf:RDF></x:xmpmeta><?xpacket end="w"?>`
}

// TestXmpAttrValueAtWindowEdge: an attribute value whose closing quote falls on the last bytes of a look-ahead
// window must be read like any other (well-formed packet, value length 1..1024).
func TestXmpAttrValueAtWindowEdge(t *testing.T) {
	var bad []int
	for n := 1; n <= 1024; n++ {
		val := strings.Repeat("v", n)
		p := xmpPacket(`<rdf:Description rdf:about="" xmlns:aux="http://ns.adobe.com/exif/1.0/aux/" xmlns:tiff="http://ns.adobe.com/tiff/1.0/" aux:Lens="` + val + `" tiff:Model="M1"></rdf:Description>`)
		x, err := xmp.ParseXmp(strings.NewReader(p))
		if err != nil || x.Aux.Lens != val || x.Tiff.Model != "M1" {
			bad = append(bad, n)
		}
	}
	if len(bad) > 0 {
		t.Fatalf("attribute values of these lengths are not extracted (or the following attribute is lost): %v", bad)
	}
}

// TestXmpWhitespaceBeforeTag: arbitrary white space between tokens.
func TestXmpWhitespaceBeforeTag(t *testing.T) {
	var bad []int
	for n := 0; n <= 700; n++ {
		p := xmpPacket(`<rdf:Description rdf:about="" xmlns:tiff="http://ns.adobe.com/tiff/1.0/">` + strings.Repeat(" ", n) + `<tiff:Make>MK</tiff:Make>` + strings.Repeat("\n", n) + `<tiff:Model>MD</tiff:Model></rdf:Description>`)
		x, err := xmp.ParseXmp(strings.NewReader(p))
		if err != nil || x.Tiff.Make != "MK" || x.Tiff.Model != "MD" {
			bad = append(bad, n)
		}
	}
	if len(bad) > 0 {
		t.Fatalf("with this many white-space bytes before an element the properties are not extracted: %s", fmt.Sprint(bad))
	}
}

// TestXmpElementValueLengths: element values of 1..1024 bytes.
func TestXmpElementValueLengths(t *testing.T) {
	var bad []int
	for n := 1; n <= 1024; n++ {
		val := strings.Repeat("e", n)
		p := xmpPacket(`<rdf:Description rdf:about="" xmlns:tiff="http://ns.adobe.com/tiff/1.0/"><tiff:Make>` + val + `</tiff:Make><tiff:Model>MD</tiff:Model></rdf:Description>`)
		x, err := xmp.ParseXmp(strings.NewReader(p))
		if err != nil || x.Tiff.Make != val || x.Tiff.Model != "MD" {
			bad = append(bad, n)
		}
	}
	if len(bad) > 0 {
		t.Fatalf("element values of these lengths are not extracted: %v", bad)
	}
}
